/-
C22 — property theorems (statements depend on Model.lean only, plus the closed form `axisSpec`
defined in Lemmas.lean; helper lemmas in Lemmas.lean).

Property: extracting any set of cells yields a grid whose face and node index maps point to the matching
parent entities (and whose geometry, recomputed, is the parent's — see EXPLANATION in harness/props/c22.py:
the theorem below is the topological half of that argument); partitioners assign every cell to exactly
one part within range; overlap layers only grow the cell set and contain all neighbours of the previous
layer.
-/
import PorepyVerif.C22.Lemmas

namespace PorepyVerif.C22

/-! ## (a) extraction -/

/-- `extract_subgrid(g, c, sort)` succeeded with result `r`.  Then
 * `face_map` / `node_map` are strictly increasing (hence injective);
 * `face_map` holds exactly the parent faces of the extracted cells, `node_map` exactly the parent nodes
   of those faces, and all of them exist in the parent;
 * the local cell-face relation, renumbered through `face_map`, IS the parent's relation on the extracted
   cells — same faces in the same stored order with the same signs; the local face-node relation,
   renumbered through `node_map`, IS the parent's on the extracted faces (same node order, which is what
   `compute_geometry` reads);
 * local indices are within the maps. -/
theorem extract_maps_point_to_parent (g : Topo) (c : List Nat) (sort : Bool) (r : Sub)
    (h : extract g c sort = .ok r) :
    r.faceMap.Pairwise (· < ·) ∧ r.nodeMap.Pairwise (· < ·) ∧ r.faceMap.Nodup ∧ r.nodeMap.Nodup ∧
    (∀ f, f ∈ r.faceMap ↔ ∃ i ∈ r.cells, f ∈ g.cfFaces.getD i []) ∧
    (∀ n, n ∈ r.nodeMap ↔ ∃ f ∈ r.faceMap, n ∈ g.fn.getD f []) ∧
    (∀ i ∈ r.cells, i < g.cfFaces.length) ∧ (∀ f ∈ r.faceMap, f < g.fn.length) ∧
    r.cfFaces.map (fun col => col.map (fun lf => r.faceMap.getD lf 0))
      = r.cells.map (fun i => g.cfFaces.getD i []) ∧
    r.cfSigns = r.cells.map (fun i => g.cfSigns.getD i []) ∧
    r.fn.map (fun col => col.map (fun ln => r.nodeMap.getD ln 0))
      = r.faceMap.map (fun f => g.fn.getD f []) ∧
    (∀ col ∈ r.cfFaces, ∀ lf ∈ col, lf < r.faceMap.length) ∧
    (∀ col ∈ r.fn, ∀ ln ∈ col, ln < r.nodeMap.length) := by
  obtain ⟨hc, hfm, hcf, hnm, hfn, hsg, hci, hfi, _⟩ := extractCore_ok h
  rw [← hc] at hfm hcf hsg hci
  obtain ⟨f1, f2, f3, f4⟩ := extractSub_spec g.cfFaces r.cells
  obtain ⟨n1, n2, n3, n4⟩ := extractSub_spec g.fn r.faceMap
  rw [← hfm] at f1 f2 f3 f4
  rw [← hcf] at f3 f4
  rw [← hnm] at n1 n2 n3 n4
  rw [← hfn] at n3 n4
  exact ⟨f1, n1, nodup_of_pairwise_lt f1, nodup_of_pairwise_lt n1, f2, n2, hci, hfi, f3, hsg, n3, f4, n4⟩

/-- The cells of the sub-grid (`parent_cell_ind`) are the requested cells: in the given order for
    `sort=False`; sorted ascending, as a permutation of the input, for `sort=True` (and unchanged if the
    input was sorted already). -/
theorem extract_cells_order (g : Topo) (c : List Nat) (sort : Bool) (r : Sub)
    (h : extract g c sort = .ok r) :
    (sort = false → r.cells = c) ∧
    (sort = true → r.cells = isort c ∧ r.cells.Pairwise (· ≤ ·) ∧ r.cells.Perm c) ∧
    (c.Pairwise (· ≤ ·) → r.cells = c) := by
  have hc := (extractCore_ok h).1
  refine ⟨?_, ?_, ?_⟩
  · intro hs; rw [hc, hs]; rfl
  · intro hs
    rw [hc, hs]
    exact ⟨rfl, pairwise_isort c, perm_isort c⟩
  · intro hsorted
    rw [hc]
    cases sort
    · rfl
    · exact isort_of_sorted hsorted

/-- `faces=True` (2-d and 3-d parents): the node map of the lower-dimensional grid is strictly increasing
    and holds exactly the parent nodes of the chosen faces; in the 2-d → 1-d case the cells' local
    nodes (which are the 1-d grid's faces), renumbered through the node map, are the parent faces' nodes
    in stored order. -/
theorem extract_faces_maps_point_to_parent (fn : List (List Nat)) (f : List Nat) (r : FaceSub) :
    (extractFaces2 fn f = .ok r →
      r.faces = f ∧ r.nodeMap.Pairwise (· < ·) ∧
      (∀ n, n ∈ r.nodeMap ↔ ∃ x ∈ f, n ∈ fn.getD x []) ∧
      r.cfFaces.map (fun col => col.map (fun ln => r.nodeMap.getD ln 0)) = f.map (fun x => fn.getD x []) ∧
      r.fn = (List.range r.nodeMap.length).map (fun i => [i])) ∧
    (extractFaces3 fn f = .ok r →
      r.faces = f ∧ r.nodeMap.Pairwise (· < ·) ∧
      (∀ n, n ∈ r.nodeMap ↔ ∃ x ∈ f, n ∈ fn.getD x []) ∧
      r.cfFaces.length = f.length) := by
  obtain ⟨s1, s2, s3, _⟩ := extractSub_spec fn f
  constructor
  · intro h
    unfold extractFaces2 at h
    simp only at h
    split at h
    · cases h
    · split at h
      · cases h
      · injection h with h
        subst h
        exact ⟨rfl, s1, s2, s3, rfl⟩
  · intro h
    unfold extractFaces3 at h
    simp only at h
    split at h
    · cases h
    · split at h
      · cases h
      · injection h with h
        subst h
        refine ⟨rfl, s1, s2, ?_⟩
        simp [extractSub, renumber, subCols]

/-- `partition_grid`: the parts' cell lists together contain every cell exactly once (the flattened list
    has no duplicates and its members are exactly the cells `< ind.length`), every part is sorted, and the
    sub-grid extracted for part `j` has exactly that part's cells. -/
theorem partition_grid_cells_once (g : Topo) (ind : List Nat) :
    (partCells ind).flatten.Nodup ∧
    (∀ c, c ∈ (partCells ind).flatten ↔ c < ind.length) ∧
    (partitionGrid g ind).length = (usort ind).length ∧
    (∀ (j : Nat) (r : Sub), (partitionGrid g ind)[j]? = some (Except.ok r) →
      (partCells ind)[j]? = some r.cells) := by
  refine ⟨nodup_partCells_flatten ind, fun c => mem_partCells_flatten, by simp [partitionGrid, partCells], ?_⟩
  intro j r hj
  simp only [partitionGrid, List.getElem?_map] at hj
  cases hcs : (partCells ind)[j]? with
  | none => simp [hcs] at hj
  | some cs =>
    simp only [hcs, Option.map_some, Option.some.injEq] at hj
    have hmem : cs ∈ partCells ind := List.mem_of_getElem? hcs
    have := (extract_cells_order g cs true r hj).2.2 (partCells_sorted hmem)
    rw [this]

/-! ## (b) `partition_structured` -/

/-- The coded construction of the per-axis coarse index (increments at multiples of `⌊f/c⌋`, trimmed to
    `c` increments, cumulative sum minus one) has the closed form `min (i / ⌊f/c⌋) (c-1)`. -/
theorem axis_index_closed_form (f c : Nat) (hc : 1 ≤ c) (hcf : c ≤ f) :
    axisIdx f c = (List.range f).map (fun i => ((min (i / (f / c)) (c - 1) : Nat) : Int)) :=
  axisIdx_closed hc hcf

/-- hypothesis of the theorems below: every axis has `1 ≤ coarse ≤ fine` -/
def DimsOk (fine coarse : List Nat) : Prop := ∀ q ∈ fine.zip coarse, 1 ≤ q.2 ∧ q.2 ≤ q.1

/-- Cell `(i, j, k)` of the Cartesian grid (global number `i + f0·(j + f1·k)`, x fastest) gets the
    mixed-radix combination of its three axis indices. (2-d and 1-d: same statement with fewer axes.) -/
theorem partition_structured_cell :
    (∀ f0 c0 p, partitionStructured [f0] [c0] = .ok p → 1 ≤ c0 → c0 ≤ f0 →
      ∀ i, i < f0 → p.getD i (-1) = (axisSpec f0 c0 i : Nat)) ∧
    (∀ f0 f1 c0 c1 p, partitionStructured [f0, f1] [c0, c1] = .ok p → DimsOk [f0, f1] [c0, c1] →
      ∀ i j, i < f0 → j < f1 →
        p.getD (i + f0 * j) (-1) = (axisSpec f0 c0 i : Nat) + (axisSpec f1 c1 j : Nat) * (c0 : Int)) ∧
    (∀ f0 f1 f2 c0 c1 c2 p, partitionStructured [f0, f1, f2] [c0, c1, c2] = .ok p →
      DimsOk [f0, f1, f2] [c0, c1, c2] → ∀ i j k, i < f0 → j < f1 → k < f2 →
        p.getD (i + f0 * (j + f1 * k)) (-1)
          = (axisSpec f0 c0 i : Nat) + (axisSpec f1 c1 j : Nat) * (c0 : Int)
            + (axisSpec f2 c2 k : Nat) * ((c0 * c1 : Nat) : Int)) := by
  refine ⟨?_, ?_, ?_⟩
  · intro f0 c0 p h hc hcf i hi
    rw [ps1 ⟨hc, hcf⟩] at h
    injection h with h
    subst h
    exact axisIdx_getD hc hcf hi _
  · intro f0 f1 c0 c1 p h hd i j hi hj
    have h0 : 1 ≤ c0 ∧ c0 ≤ f0 := hd (f0, c0) (by simp)
    have h1 : 1 ≤ c1 ∧ c1 ≤ f1 := hd (f1, c1) (by simp)
    rw [ps2 h0 h1] at h
    injection h with h
    subst h
    unfold combine2
    rw [getD_flatMap_uniform _ f0 (-1) (-1) _ (by intro y _; simp [axisIdx_length]) i j hi
      (by rw [axisIdx_length]; exact hj)]
    rw [getD_map' _ _ (by rw [axisIdx_length]; exact hi) (-1) (-1),
      axisIdx_getD h0.1 h0.2 hi, axisIdx_getD h1.1 h1.2 hj]
  · intro f0 f1 f2 c0 c1 c2 p h hd i j k hi hj hk
    have h0 : 1 ≤ c0 ∧ c0 ≤ f0 := hd (f0, c0) (by simp)
    have h1 : 1 ≤ c1 ∧ c1 ≤ f1 := hd (f1, c1) (by simp)
    have h2 : 1 ≤ c2 ∧ c2 ≤ f2 := hd (f2, c2) (by simp)
    rw [ps3 h0 h1 h2] at h
    injection h with h
    subst h
    unfold combine3
    have hjk : j + f1 * k < f1 * f2 := by
      have : f1 * (k + 1) ≤ f1 * f2 := Nat.mul_le_mul_left _ (by omega)
      rw [Nat.mul_succ] at this
      omega
    -- flatten the two outer loops into one loop over pairs (z, y), indexed by j + f1*k
    have hflat : ∀ (zs ys : List Int) (F : Int → Int → List Int),
        zs.flatMap (fun z => ys.flatMap (fun y => F z y))
          = (zs.flatMap (fun z => ys.map (fun y => (z, y)))).flatMap (fun q => F q.1 q.2) := by
      intro zs ys F
      simp [List.flatMap_assoc, List.flatMap_map]
    rw [hflat]
    rw [getD_flatMap_uniform _ f0 (-1) ((-1 : Int), (-1 : Int)) _
      (by intro q _; simp [axisIdx_length]) i (j + f1 * k) hi
      (by rw [length_pairs, axisIdx_length, axisIdx_length]; exact hjk)]
    rw [getD_flatMap_uniform (fun z => (axisIdx f1 c1).map (fun y => (z, y))) f1 ((-1 : Int), (-1 : Int)) (-1) _
      (by intro z _; simp [axisIdx_length]) j k hj (by rw [axisIdx_length]; exact hk)]
    rw [getD_map' _ (axisIdx f0 c0) (by rw [axisIdx_length]; exact hi) (-1) (-1),
      getD_map' _ (axisIdx f1 c1) (by rw [axisIdx_length]; exact hj) _ (-1)]
    simp only
    rw [axisIdx_getD h0.1 h0.2 hi, axisIdx_getD h1.1 h1.2 hj, axisIdx_getD h2.1 h2.2 hk]

/-- Every part id lies in `[0, Π coarse_dims)`. -/
theorem partition_structured_in_range (fine coarse : List Nat) (p : List Int)
    (h : partitionStructured fine coarse = .ok p) (hd : DimsOk fine coarse) :
    ∀ x ∈ p, 0 ≤ x ∧ x < ((coarse.foldl (· * ·) 1 : Nat) : Int) := by
  rcases ps_cases h with ⟨f0, c0, rfl, rfl⟩ | ⟨f0, f1, c0, c1, rfl, rfl⟩ |
    ⟨f0, f1, f2, c0, c1, c2, rfl, rfl⟩
  · have h0 : 1 ≤ c0 ∧ c0 ≤ f0 := hd (f0, c0) (by simp)
    rw [ps1 h0] at h; injection h with h; subst h
    intro x hx
    simpa using axisIdx_range h0.1 h0.2 hx
  · have h0 : 1 ≤ c0 ∧ c0 ≤ f0 := hd (f0, c0) (by simp)
    have h1 : 1 ≤ c1 ∧ c1 ≤ f1 := hd (f1, c1) (by simp)
    rw [ps2 h0 h1] at h; injection h with h; subst h
    intro q hq
    obtain ⟨y, hy, x, hx, rfl⟩ := mem_combine2.mp hq
    have hxr := axisIdx_range h0.1 h0.2 hx
    have hyr := axisIdx_range h1.1 h1.2 hy
    simpa using radix2 hxr.1 hxr.2 hyr.1 hyr.2
  · have h0 : 1 ≤ c0 ∧ c0 ≤ f0 := hd (f0, c0) (by simp)
    have h1 : 1 ≤ c1 ∧ c1 ≤ f1 := hd (f1, c1) (by simp)
    have h2 : 1 ≤ c2 ∧ c2 ≤ f2 := hd (f2, c2) (by simp)
    rw [ps3 h0 h1 h2] at h; injection h with h; subst h
    intro q hq
    obtain ⟨z, hz, y, hy, x, hx, rfl⟩ := mem_combine3.mp hq
    have hxr := axisIdx_range h0.1 h0.2 hx
    have hyr := axisIdx_range h1.1 h1.2 hy
    have hzr := axisIdx_range h2.1 h2.2 hz
    have hw := radix2 hxr.1 hxr.2 hyr.1 hyr.2
    simpa using radix2 hw.1 hw.2 hzr.1 hzr.2

/-- Every cell gets exactly one id (the result is a vector with one entry per cell, `Π fine_dims` of them)
    and every coarse id in `[0, Π coarse_dims)` is used by some cell. -/
theorem partition_structured_total (fine coarse : List Nat) (p : List Int)
    (h : partitionStructured fine coarse = .ok p) (hd : DimsOk fine coarse) :
    p.length = fine.foldl (· * ·) 1 ∧
    ∀ q : Nat, q < coarse.foldl (· * ·) 1 → (q : Int) ∈ p := by
  rcases ps_cases h with ⟨f0, c0, rfl, rfl⟩ | ⟨f0, f1, c0, c1, rfl, rfl⟩ |
    ⟨f0, f1, f2, c0, c1, c2, rfl, rfl⟩
  · have h0 : 1 ≤ c0 ∧ c0 ≤ f0 := hd (f0, c0) (by simp)
    rw [ps1 h0] at h; injection h with h; subst h
    refine ⟨by simp [axisIdx_length], ?_⟩
    intro q hq
    exact axisIdx_onto h0.1 h0.2 (by simpa using hq)
  · have h0 : 1 ≤ c0 ∧ c0 ≤ f0 := hd (f0, c0) (by simp)
    have h1 : 1 ≤ c1 ∧ c1 ≤ f1 := hd (f1, c1) (by simp)
    rw [ps2 h0 h1] at h; injection h with h; subst h
    constructor
    · unfold combine2
      rw [length_flatMap_const _ f0 _ (by intro y _; simp [axisIdx_length]), axisIdx_length]
      simp
    · intro q hq
      have hq' : q < c0 * c1 := by simpa using hq
      obtain ⟨dx, dy, de⟩ := digits2 hq'
      refine mem_combine2.mpr ⟨_, axisIdx_onto h1.1 h1.2 dy, _, axisIdx_onto h0.1 h0.2 dx, ?_⟩
      exact_mod_cast de
  · have h0 : 1 ≤ c0 ∧ c0 ≤ f0 := hd (f0, c0) (by simp)
    have h1 : 1 ≤ c1 ∧ c1 ≤ f1 := hd (f1, c1) (by simp)
    have h2 : 1 ≤ c2 ∧ c2 ≤ f2 := hd (f2, c2) (by simp)
    rw [ps3 h0 h1 h2] at h; injection h with h; subst h
    constructor
    · unfold combine3
      rw [length_flatMap_const _ (f0 * f1) _ (by
            intro z _
            rw [length_flatMap_const _ f0 _ (by intro y _; simp [axisIdx_length]), axisIdx_length]),
        axisIdx_length]
      simp
    · intro q hq
      have hq' : q < (c0 * c1) * c2 := by simpa using hq
      obtain ⟨dw, dz, de⟩ := digits2 hq'
      obtain ⟨dx, dy, de'⟩ := digits2 dw
      refine mem_combine3.mpr ⟨_, axisIdx_onto h2.1 h2.2 dz, _, axisIdx_onto h1.1 h1.2 dy, _,
        axisIdx_onto h0.1 h0.2 dx, ?_⟩
      have e : q = q % (c0 * c1) % c0 + q % (c0 * c1) / c0 * c0 + q / (c0 * c1) * (c0 * c1) := by omega
      exact_mod_cast e

/-- Along every axis the coarse index is non-decreasing, starts at 0, ends at `c-1` and never skips a
    value: parts are contiguous index blocks in the order of the axis. -/
theorem partition_structured_monotone (f c : Nat) (hc : 1 ≤ c) (hcf : c ≤ f) :
    (axisIdx f c).Pairwise (· ≤ ·) ∧
    (axisIdx f c).getD 0 0 = 0 ∧ (axisIdx f c).getD (f - 1) 0 = (c : Int) - 1 ∧
    ∀ i, i + 1 < f → (axisIdx f c).getD (i + 1) 0 ≤ (axisIdx f c).getD i 0 + 1 := by
  refine ⟨?_, ?_, ?_, ?_⟩
  · rw [axisIdx_closed hc hcf, List.pairwise_map]
    refine List.Pairwise.imp ?_ List.pairwise_lt_range
    intro i j hij
    have := axisSpec_mono (f := f) (c := c) (Nat.le_of_lt hij)
    omega
  · rw [axisIdx_getD hc hcf (by omega), axisSpec_zero]; rfl
  · rw [axisIdx_getD hc hcf (by omega), axisSpec_last hc hcf]; omega
  · intro i hi
    rw [axisIdx_getD hc hcf hi, axisIdx_getD hc hcf (by omega)]
    have := axisSpec_step_le (f := f) (c := c) i
    omega

/-! ## (c) `overlap`

`ce` is the cell→entity relation the criterion uses (`ce[c]` = nodes of cell `c` for 'node', faces of
cell `c` for 'face'); two cells are neighbours iff they share an entity. -/

/-- Zero layers return the input set (sorted, duplicates removed); the output of any depth is sorted
    strictly increasingly, and the function answers (no error) when all input cells exist. -/
theorem overlap_zero_id (ce : List (List Nat)) (cells : List Nat)
    (hcells : ∀ c ∈ cells, c < ce.length) :
    (∀ k, overlap ce cells k = .ok (overlapCells ce cells k)) ∧
    (∀ c, c ∈ overlapCells ce cells 0 ↔ c ∈ cells) ∧
    (∀ k, (overlapCells ce cells k).Pairwise (· < ·)) :=
  ⟨overlap_ok hcells, fun _ => mem_overlapCells' hcells, overlapCells_sorted ce cells⟩

/-- Layers only grow the cell set: the result contains the input, and `k+1` layers contain `k` layers. -/
theorem overlap_monotone (ce : List (List Nat)) (cells : List Nat)
    (hcells : ∀ c ∈ cells, c < ce.length) (k : Nat) :
    (∀ c ∈ cells, c ∈ overlapCells ce cells k) ∧
    (∀ c ∈ overlapCells ce cells k, c ∈ overlapCells ce cells (k + 1)) := by
  have hstep : ∀ k, ∀ c ∈ overlapCells ce cells k, c ∈ overlapCells ce cells (k + 1) := by
    intro k c hc
    rw [mem_overlapCells' hcells] at hc ⊢
    exact (mem_layer (ovInv_layers ce cells k)).mpr (Or.inl hc)
  refine ⟨?_, hstep k⟩
  induction k with
  | zero => intro c hc; exact (mem_overlapCells' hcells).mpr hc
  | succ k ih => intro c hc; exact hstep k c (ih c hc)

/-- Every cell of the grid sharing an entity (node / face) with a cell of layer `k` is in layer `k+1`. -/
theorem overlap_contains_neighbours (ce : List (List Nat)) (cells : List Nat)
    (hcells : ∀ c ∈ cells, c < ce.length) (k c c' e : Nat)
    (hc : c ∈ overlapCells ce cells k) (hc' : c' < ce.length)
    (he : e ∈ ce.getD c []) (he' : e ∈ ce.getD c' []) :
    c' ∈ overlapCells ce cells (k + 1) := by
  rw [mem_overlapCells' hcells] at hc ⊢
  exact (mem_layer (ovInv_layers ce cells k)).mpr (Or.inr ⟨hc', c, hc, e, he, he'⟩)

/-- … and nothing else is added: layer `k+1` is exactly layer `k` plus its neighbours. -/
theorem overlap_layer_exact (ce : List (List Nat)) (cells : List Nat)
    (hcells : ∀ c ∈ cells, c < ce.length) (k c' : Nat) :
    c' ∈ overlapCells ce cells (k + 1) ↔
      c' ∈ overlapCells ce cells k ∨
      (c' < ce.length ∧ ∃ c ∈ overlapCells ce cells k, ∃ e, e ∈ ce.getD c [] ∧ e ∈ ce.getD c' []) := by
  simp only [mem_overlapCells' hcells]
  exact mem_layer (ovInv_layers ce cells k)

/-! ## (a') the lower-dimensional grids of `faces=True`: sign rule and edge construction -/

/-- The marking used by both variants (`np.unique(indices, return_index=True)`): position `p` of the
    flattened index array is "first" iff its value does not occur at an earlier position. -/
theorem first_occurrence_spec (l : List Nat) (p : Nat) (hp : p < l.length) :
    (firstOccAux [] l).getD p false = true ↔ l.getD p 0 ∉ l.take p := by
  rw [firstOccAux_spec l [] p hp]; simp

/-- Sign rule of the extracted lower-dimensional grid.  2-d parent (cells = chosen faces, faces = nodes):
    the first cell touching a node gets +1, all later ones −1; 3-d parent (faces = edges): first −1, later
    +1.  Hence the signed row sum of a face of the new grid shared by `k ≥ 1` cells is `2 − k` (resp.
    `k − 2`): it vanishes exactly for `k = 2` (closedness at an interior node/edge of a manifold piece),
    is ±1 on the boundary (`k = 1`) and at a T-junction (`k = 3`); an accepted result never has `k ≥ 4`
    (the `Grid` constructor refuses it). -/
theorem extract_faces_sign_rule (fn : List (List Nat)) (f : List Nat) (r : FaceSub) :
    (extractFaces2 fn f = .ok r →
      r.cfSigns.map List.length = r.cfFaces.map List.length ∧
      r.cfSigns.flatten = (firstOccAux [] r.cfFaces.flatten).map (fun t => if t then (1 : Int) else -1) ∧
      (∀ v, rowSum r.cfFaces r.cfSigns v
          = if r.cfFaces.flatten.count v = 0 then 0 else 2 - (r.cfFaces.flatten.count v : Int)) ∧
      (∀ v, r.cfFaces.flatten.count v ≤ 3) ∧
      (∀ v, r.cfFaces.flatten.count v = 2 → rowSum r.cfFaces r.cfSigns v = 0)) ∧
    (extractFaces3 fn f = .ok r →
      r.cfSigns.map List.length = r.cfFaces.map List.length ∧
      r.cfSigns.flatten = (firstOccAux [] r.cfFaces.flatten).map (fun t => if t then (-1 : Int) else 1) ∧
      (∀ v, rowSum r.cfFaces r.cfSigns v
          = if r.cfFaces.flatten.count v = 0 then 0 else (r.cfFaces.flatten.count v : Int) - 2) ∧
      (∀ v, r.cfFaces.flatten.count v ≤ 3) ∧
      (∀ v, r.cfFaces.flatten.count v = 2 → rowSum r.cfFaces r.cfSigns v = 0)) := by
  constructor
  · intro h
    unfold extractFaces2 at h
    simp only at h
    split at h
    · cases h
    · split at h
      · cases h
      · rename_i _ hbad
        injection h with h
        subst h
        simp only
        have hsum : ∀ v, rowSum (extractSub fn f).1 (signCols 1 (-1) [] (extractSub fn f).1) v
            = if (extractSub fn f).1.flatten.count v = 0 then 0
              else 2 - ((extractSub fn f).1.flatten.count v : Int) := by
          intro v
          rw [rowSum_signCols 1 (-1) (Or.inr rfl)]
          split <;> omega
        refine ⟨signCols_shape _ _ _ _, flatten_signCols _ _ _ _, hsum, ?_, ?_⟩
        · intro v
          by_cases hv : v < (extractSub fn f).2.length
          · have := not_orientationBad (by simpa using hbad) v hv
            rw [hsum v] at this
            split at this <;> omega
          · have : (extractSub fn f).1.flatten.count v = 0 := by
              rw [List.count_eq_zero]
              intro hm
              obtain ⟨col, hcol, hvc⟩ := List.mem_flatten.mp hm
              exact hv ((extractSub_spec fn f).2.2.2 col hcol v hvc)
            omega
        · intro v hv2
          rw [hsum v, hv2]; simp
  · intro h
    unfold extractFaces3 at h
    simp only at h
    split at h
    · cases h
    · split at h
      · cases h
      · rename_i _ hbad
        injection h with h
        subst h
        simp only
        generalize hcf : List.map _ (List.map cyclicEdges (extractSub fn f).1) = cf at hbad ⊢
        have hsum : ∀ v, rowSum cf (signCols (-1) 1 [] cf) v
            = if cf.flatten.count v = 0 then 0 else (cf.flatten.count v : Int) - 2 := by
          intro v
          rw [rowSum_signCols (-1) 1 (Or.inl rfl)]
          split <;> omega
        refine ⟨signCols_shape _ _ _ _, flatten_signCols _ _ _ _, hsum, ?_, ?_⟩
        · intro v
          generalize hu : usort _ = ukeys at hbad hcf
          by_cases hv : v < ukeys.length
          · have := not_orientationBad (by simpa using hbad) v hv
            rw [hsum v] at this
            split at this <;> omega
          · have : cf.flatten.count v = 0 := by
              rw [List.count_eq_zero]
              intro hm
              obtain ⟨col, hcol, hvc⟩ := List.mem_flatten.mp hm
              rw [← hcf] at hcol
              obtain ⟨ecol, hecol, rfl⟩ := List.mem_map.mp hcol
              obtain ⟨e, he, rfl⟩ := List.mem_map.mp hvc
              apply hv
              apply List.idxOf_lt_length_iff.mpr
              rw [← hu, mem_usort]
              exact List.mem_map.mpr ⟨e, List.mem_flatten.mpr ⟨ecol, hecol, he⟩, rfl⟩
            omega
        · intro v hv2
          rw [hsum v, hv2]; simp

/-- key of a face `[a, b]` of the extracted 2-d grid -/
def faceKey (m : Nat) (face : List Nat) : Nat := edgeKey m (face.getD 0 0, face.getD 1 0)

/-- Edge construction of `_extract_cells_from_faces_3d`.  With `cn` the local cell→node lists of the chosen
    faces and `ecols` their cyclic consecutive node pairs:
 * the faces of the new grid are pairwise distinct undirected edges, sorted by (smaller node, larger node)
   (their keys are strictly increasing; the key determines the unordered pair, `edge_key_injective`);
 * every face is an oriented edge `[a, b]` of one of the cells;
 * the `t`-th face of cell `j` is the undirected edge of the `t`-th consecutive node pair of that cell;
 * in parent numbering the consecutive node pairs of cell `j` are those of the parent face `f[j]`
   (each extracted cell is the parent face, with its boundary);
 * all local nodes are below the radix `m`, so keys identify undirected edges. -/
theorem extract_faces3_edges (fn : List (List Nat)) (f : List Nat) (r : FaceSub)
    (h : extractFaces3 fn f = .ok r) :
    (r.fn.map (faceKey (r.nodeMap.length + 1))).Pairwise (· < ·) ∧
    (∀ face ∈ r.fn, ∃ e ∈ ((extractSub fn f).1.map cyclicEdges).flatten, face = [e.1, e.2]) ∧
    r.cfFaces.map (fun col => col.map (fun i => faceKey (r.nodeMap.length + 1) (r.fn.getD i [])))
      = ((extractSub fn f).1.map cyclicEdges).map (fun col => col.map (edgeKey (r.nodeMap.length + 1))) ∧
    ((extractSub fn f).1.map cyclicEdges).map
        (fun col => col.map (fun e => (r.nodeMap.getD e.1 0, r.nodeMap.getD e.2 0)))
      = f.map (fun x => cyclicEdges (fn.getD x [])) ∧
    (∀ e ∈ ((extractSub fn f).1.map cyclicEdges).flatten,
      e.1 < r.nodeMap.length + 1 ∧ e.2 < r.nodeMap.length + 1) := by
  unfold extractFaces3 at h
  simp only at h
  split at h
  · cases h
  · split at h
    · cases h
    · injection h with h
      subst h
      simp only
      generalize hm : (extractSub fn f).2.length + 1 = m
      generalize hes : ((extractSub fn f).1.map cyclicEdges).flatten = es
      -- key of the face stored for a key `k` of the edge list is `k` itself
      have hkey : ∀ k ∈ es.map (edgeKey m),
          faceKey m [(es.getD ((es.map (edgeKey m)).idxOf k) (0, 0)).1,
                     (es.getD ((es.map (edgeKey m)).idxOf k) (0, 0)).2] = k := by
        intro k hk
        have := getD_idxOf_map (edgeKey m) (0, 0) es hk
        simpa [faceKey] using this
      refine ⟨?_, ?_, ?_, ?_, ?_⟩
      · rw [List.map_map]
        have : (usort (es.map (edgeKey m))).map
            (faceKey m ∘ fun k => [(es.getD ((es.map (edgeKey m)).idxOf k) (0, 0)).1,
              (es.getD ((es.map (edgeKey m)).idxOf k) (0, 0)).2]) = usort (es.map (edgeKey m)) := by
          conv => rhs; rw [← List.map_id (usort (es.map (edgeKey m)))]
          apply List.map_congr_left
          intro k hk
          exact hkey k (mem_usort.mp hk)
        rw [this]
        exact pairwise_usort _
      · intro face hface
        obtain ⟨k, hk, rfl⟩ := List.mem_map.mp hface
        have hk' := mem_usort.mp hk
        have hlt : (es.map (edgeKey m)).idxOf k < es.length := by
          simpa using (List.idxOf_lt_length_iff.mpr hk')
        refine ⟨es.getD ((es.map (edgeKey m)).idxOf k) (0, 0), ?_, rfl⟩
        rw [List.getD_eq_getElem?_getD, List.getElem?_eq_getElem hlt]
        exact List.getElem_mem hlt
      · rw [List.map_map]
        apply List.map_congr_left
        intro ecol hecol
        simp only [Function.comp, List.map_map]
        apply List.map_congr_left
        intro e he
        simp only [Function.comp]
        have hmem : edgeKey m e ∈ es.map (edgeKey m) := by
          rw [← hes]
          exact List.mem_map.mpr ⟨e, List.mem_flatten.mpr ⟨ecol, hecol, he⟩, rfl⟩
        have hidx : (usort (es.map (edgeKey m))).idxOf (edgeKey m e) < (usort (es.map (edgeKey m))).length :=
          List.idxOf_lt_length_iff.mpr (mem_usort.mpr hmem)
        rw [List.getD_eq_getElem?_getD, List.getElem?_map, List.getElem?_eq_getElem hidx]
        simp only [Option.map_some, Option.getD_some, List.getElem_idxOf hidx]
        exact hkey _ hmem
      · rw [List.map_map]
        have h3 := (extractSub_spec fn f).2.2.1
        have hr : f.map (fun x => cyclicEdges (fn.getD x []))
            = (f.map (fun i => fn.getD i [])).map cyclicEdges := by rw [List.map_map]; rfl
        rw [hr, ← h3, List.map_map]
        apply List.map_congr_left
        intro col _
        simp only [Function.comp]
        exact cyclicEdges_map (fun j => (extractSub fn f).2.getD j 0) col
      · intro e he
        rw [← hm]
        rw [← hes] at he
        obtain ⟨ecol, hecol, hee⟩ := List.mem_flatten.mp he
        obtain ⟨col, hcol, rfl⟩ := List.mem_map.mp hecol
        have := mem_cyclicEdges hee
        have h4 := (extractSub_spec fn f).2.2.2 col hcol
        exact ⟨Nat.lt_succ_of_lt (h4 _ this.1), Nat.lt_succ_of_lt (h4 _ this.2)⟩

/-- equal keys ⇒ same undirected edge (for nodes below the radix) -/
theorem edge_key_injective (m : Nat) (e e' : Nat × Nat) (h1 : e.1 < m) (h2 : e.2 < m)
    (h1' : e'.1 < m) (h2' : e'.2 < m) (h : edgeKey m e = edgeKey m e') :
    (e.1 = e'.1 ∧ e.2 = e'.2) ∨ (e.1 = e'.2 ∧ e.2 = e'.1) :=
  edgeKey_inj h1 h2 h1' h2' h

/-! ## (b') `determine_coarse_dimensions` -/

/-- The integer n-th root used by the model is the exact one: for `k, q, p ≥ 1`,
    `⌊s⌋^k·q ≤ p < (⌊s⌋+1)^k·q` and `(⌈s⌉−1)^k·q < p ≤ ⌈s⌉^k·q`, `⌈s⌉ ≥ 1`, where `s = (p/q)^(1/k)`
    (`p` = clamped target, `q` = product of the dimensions already fixed, `k` = dimensions left);
    and it satisfies the only two facts the range theorem needs (`RootOk`: `⌊s⌋ ≤ ⌈s⌉`, `1 ≤ ⌈s⌉`). -/
theorem exact_root_spec :
    RootOk exactRoot ∧
    ∀ k p q, 1 ≤ k → 1 ≤ q → 1 ≤ p →
      (rootFloor k p q ^ k * q ≤ p ∧ p < (rootFloor k p q + 1) ^ k * q) ∧
      (p ≤ rootCeil k p q ^ k * q ∧ (rootCeil k p q - 1) ^ k * q < p ∧ 1 ≤ rootCeil k p q) :=
  ⟨exactRoot_ok, fun _ _ _ hk hq hp => ⟨rootFloor_spec hk hq, rootCeil_spec hk hq hp⟩⟩

/-- `determine_coarse_dimensions(target, fine)` — for ANY root oracle with `⌊s⌋ ≤ ⌈s⌉`, `1 ≤ ⌈s⌉` (so also for
    the float roots of the real code whenever they are a floor/ceil pair of a positive number), any target
    and any fine sizes `≥ 1`: the loop terminates without the "bug somewhere" ValueError, returns one coarse
    size per axis with `1 ≤ coarse ≤ fine`, hence `1 ≤ Π coarse ≤ Π fine`.  This includes the code's quirks
    (`np.any` on the index array of ceiling hits, the signed `dist`), which only affect how close to the
    target the result is, never the range. -/
theorem coarse_dimensions_in_range (root : Nat → Nat → Nat → Nat × Nat) (hroot : RootOk root)
    (target : Nat) (fine : List Nat) (hf : ∀ f ∈ fine, 1 ≤ f) :
    ∃ c, dcd root target fine = .ok c ∧ c.length = fine.length ∧ DimsOk fine c ∧
      1 ≤ c.foldl (· * ·) 1 ∧ c.foldl (· * ·) 1 ≤ fine.foldl (· * ·) 1 := by
  obtain ⟨c, hc, hl, hz⟩ := dcd_ok root hroot target fine hf
  obtain ⟨b1, b2⟩ := prodL_bounds fine c 1 1 hl hz (Nat.le_refl _) (Nat.le_refl _)
  exact ⟨c, hc, hl, hz, b1, b2⟩

/-- `partition_structured(g, num_part=n)` = `partition_structured(g, coarse_dims=determine_coarse_dimensions(n, fine))`
    on a 1-, 2- or 3-d tensor grid: it answers, every cell gets exactly one id, ids lie in `[0, Π coarse)`,
    every id is used, and there are at most as many parts as cells. -/
theorem partition_structured_num_part (root : Nat → Nat → Nat → Nat × Nat) (hroot : RootOk root)
    (target : Nat) (fine : List Nat) (hf : ∀ f ∈ fine, 1 ≤ f)
    (hnd : 1 ≤ fine.length ∧ fine.length ≤ 3) :
    ∃ c p, dcd root target fine = .ok c ∧ partitionStructured fine c = .ok p ∧
      p.length = fine.foldl (· * ·) 1 ∧
      (∀ x ∈ p, 0 ≤ x ∧ x < ((c.foldl (· * ·) 1 : Nat) : Int)) ∧
      (∀ q : Nat, q < c.foldl (· * ·) 1 → (q : Int) ∈ p) ∧
      c.foldl (· * ·) 1 ≤ fine.foldl (· * ·) 1 := by
  obtain ⟨c, hc, hl, hd, _, hb⟩ := coarse_dimensions_in_range root hroot target fine hf
  have hps : ∃ p, partitionStructured fine c = .ok p := by
    rcases fine with _ | ⟨f0, _ | ⟨f1, _ | ⟨f2, _ | ⟨f3, fs⟩⟩⟩⟩
    · simp at hnd
    · rcases c with _ | ⟨c0, _ | ⟨c1, cs⟩⟩ <;> simp at hl
      exact ⟨_, ps1 (hd (f0, c0) (by simp))⟩
    · rcases c with _ | ⟨c0, _ | ⟨c1, _ | ⟨c2, cs⟩⟩⟩ <;> simp at hl
      exact ⟨_, ps2 (hd (f0, c0) (by simp)) (hd (f1, c1) (by simp))⟩
    · rcases c with _ | ⟨c0, _ | ⟨c1, _ | ⟨c2, _ | ⟨c3, cs⟩⟩⟩⟩ <;> simp at hl
      exact ⟨_, ps3 (hd (f0, c0) (by simp)) (hd (f1, c1) (by simp)) (hd (f2, c2) (by simp))⟩
    · simp at hnd
  obtain ⟨p, hp⟩ := hps
  obtain ⟨t1, t2⟩ := partition_structured_total fine c p hp hd
  exact ⟨c, p, hc, hp, t1, partition_structured_in_range fine c p hp hd, t2, hb⟩

/-! ## (b'') `partition_coordinates` (box search in exact arithmetic) -/

/-- If every cell centre lies inside the node extent of the (mapped) grid on every active axis
    (`lo ≤ cc < hi`, which holds for centres of non-degenerate cells) and every axis has at least one box,
    then the search answers (the `assert partition.min() >= 0` holds), assigns every cell exactly one id,
    the id lies in `[0, Π coarse_dims)`, and it is the number of the one box `[lo + k·dx, lo + (k+1)·dx)^d`
    that contains the centre (no other box does, so the overwrite order of the loop is irrelevant). -/
theorem partition_coordinates_total (axes : List Axis) (centers : List (List Rat))
    (h : ∀ x ∈ centers, AllOk axes x) :
    ∃ p, pcoord axes centers = .ok p ∧ p = centers.map (assignBox axes) ∧ p.length = centers.length ∧
      (∀ v ∈ p, 0 ≤ v ∧ v < ((prodL (axes.map (·.c)) : Nat) : Int)) ∧
      (∀ x ∈ centers, ∃ i : Nat, assignBox axes x = (i : Int) ∧ i < prodL (axes.map (·.c)) ∧
        hitAll axes (unravel (axes.map (·.c)) i) x = true ∧
        ∀ j, j < prodL (axes.map (·.c)) → hitAll axes (unravel (axes.map (·.c)) j) x = true → j = i) := by
  have hrange : ∀ v ∈ centers.map (assignBox axes), 0 ≤ v ∧ v < ((prodL (axes.map (·.c)) : Nat) : Int) := by
    intro v hv
    obtain ⟨x, hx, rfl⟩ := List.mem_map.mp hv
    obtain ⟨i, hi, hlt, _⟩ := assignBox_spec axes x (h x hx)
    rw [hi]
    omega
  refine ⟨centers.map (assignBox axes), ?_, rfl, by simp, hrange, fun x hx => assignBox_spec axes x (h x hx)⟩
  unfold pcoord
  simp only
  rw [if_neg]
  intro hany
  obtain ⟨v, hv, hneg⟩ := List.any_eq_true.mp hany
  have := (hrange v hv).1
  simp at hneg
  omega

/-! ## (d) geometry locality, neighbouring entry points, decidable hypotheses -/

theorem getD_of_map_eq {α β γ : Type} {l : List α} {l' : List β} {f : α → γ} {g : β → γ}
    (h : l.map f = l'.map g) (i : Nat) (hi : i < l.length) (d : α) (d' : β) :
    f (l.getD i d) = g (l'.getD i d') := by
  have hl : l.length = l'.length := by simpa using congrArg List.length h
  have h1 : (l.map f)[i]? = (l'.map g)[i]? := by rw [h]
  simp only [List.getElem?_map, List.getElem?_eq_getElem hi,
    List.getElem?_eq_getElem (show i < l'.length by omega), Option.map_some, Option.some.injEq] at h1
  simp [List.getD_eq_getElem?_getD, List.getElem?_eq_getElem hi,
    List.getElem?_eq_getElem (show i < l'.length by omega), h1]

theorem subCoords_getD (coords : List (List Rat)) (nm : List Nat) {ln : Nat} (h : ln < nm.length) :
    (subCoords coords nm).getD ln [] = coords.getD (nm.getD ln 0) [] := by
  unfold subCoords
  rw [getD_map' _ nm h [] 0]

/-- **Locality of the geometric input.**  In the extracted grid (node coordinates `g.nodes[:, node_map]`) every
    face has the same node coordinates in the same order as its parent face, and every cell has the same
    faces in the same order, with the same signs and the same node coordinates, as its parent cell.  So every
    quantity that `compute_geometry` computes from a face's nodes (area, centre, normal) or from a cell's own
    signed faces and their nodes (centre, volume) is the same function applied to the same data. -/
theorem extract_geometry_local (g : Topo) (c : List Nat) (sort : Bool) (r : Sub)
    (coords : List (List Rat)) (h : extract g c sort = .ok r) :
    (∀ i, i < r.faceMap.length →
      faceData r.fn (subCoords coords r.nodeMap) i = faceData g.fn coords (r.faceMap.getD i 0)) ∧
    (∀ j, j < r.cells.length →
      cellData r.cfFaces r.cfSigns r.fn (subCoords coords r.nodeMap) j
        = cellData g.cfFaces g.cfSigns g.fn coords (r.cells.getD j 0)) := by
  obtain ⟨_, _, _, _, _, _, _, _, f3, hsg, n3, f4, n4⟩ := extract_maps_point_to_parent g c sort r h
  have hfnlen : r.fn.length = r.faceMap.length := by simpa using congrArg List.length n3
  have hcflen : r.cfFaces.length = r.cells.length := by simpa using congrArg List.length f3
  have hface : ∀ i, i < r.faceMap.length →
      faceData r.fn (subCoords coords r.nodeMap) i = faceData g.fn coords (r.faceMap.getD i 0) := by
    intro i hi
    have hi' : i < r.fn.length := by omega
    have e := getD_of_map_eq n3 i hi' [] 0
    unfold faceData
    rw [← e, List.map_map]
    apply List.map_congr_left
    intro ln hln
    have hmem : r.fn.getD i [] ∈ r.fn := by
      rw [List.getD_eq_getElem?_getD, List.getElem?_eq_getElem hi']; exact List.getElem_mem hi'
    exact subCoords_getD coords r.nodeMap (n4 _ hmem ln hln)
  refine ⟨hface, ?_⟩
  intro j hj
  have hj' : j < r.cfFaces.length := by omega
  have e := getD_of_map_eq f3 j hj' [] 0
  have hs : r.cfSigns.getD j [] = g.cfSigns.getD (r.cells.getD j 0) [] := by
    rw [hsg]; exact getD_map' _ r.cells hj [] 0
  unfold cellData
  rw [← e, hs, List.zip_map_left, List.map_map]
  apply List.map_congr_left
  intro p hp
  have hmem : r.cfFaces.getD j [] ∈ r.cfFaces := by
    rw [List.getD_eq_getElem?_getD, List.getElem?_eq_getElem hj']; exact List.getElem_mem hj'
  have hlt := f4 _ hmem p.1 (List.of_mem_zip hp).1
  simp only [Function.comp, Prod.map, id]
  rw [hface p.1 hlt]

/-- `expand_indices_nd`: component `d` of entry `k` sits at position `k·nd + d` and is `nd·ind[k] + d`;
    it stays within `n·nd` when `ind[k] < n`, and two positions hold the same value only if they are the
    same component of entries with the same index — so for duplicate-free `ind` (face_map / cells of an
    extracted grid) the selection matrices of `subgrid_to_grid_mapping` have at most one 1 per row and
    column, at the parent entity's own block. -/
theorem expand_indices_spec (ind : List Nat) (nd k d : Nat) (hk : k < ind.length) (hd : d < nd) :
    (expandNd ind nd).getD (d + nd * k) 0 = nd * ind.getD k 0 + d ∧
    (∀ n, ind.getD k 0 < n → nd * ind.getD k 0 + d < n * nd) ∧
    (∀ k' d', d' < nd → nd * ind.getD k 0 + d = nd * ind.getD k' 0 + d' →
      ind.getD k 0 = ind.getD k' 0 ∧ d = d') := by
  refine ⟨?_, ?_, ?_⟩
  · unfold expandNd
    rw [getD_flatMap_uniform _ nd 0 0 ind (by intro y _; simp) d k hd hk,
      getD_map_range _ _ hd]
  · intro n hn
    have : nd * (ind.getD k 0 + 1) ≤ nd * n := Nat.mul_le_mul_left _ hn
    rw [Nat.mul_succ] at this
    rw [Nat.mul_comm n nd]
    omega
  · intro k' d' hd' he
    have h1 : (nd * ind.getD k 0 + d) / nd = ind.getD k 0 := by
      rw [Nat.mul_add_div (by omega), Nat.div_eq_of_lt hd]; omega
    have h2 : (nd * ind.getD k' 0 + d') / nd = ind.getD k' 0 := by
      rw [Nat.mul_add_div (by omega), Nat.div_eq_of_lt hd']; omega
    have h3 : ind.getD k 0 = ind.getD k' 0 := by rw [← h1, ← h2, he]
    rw [h3] at he
    exact ⟨h3, by omega⟩

/-- `subgrid_to_grid_mapping` answers iff all local faces / cells exist in the parent, and then returns
    exactly the expanded index vectors. -/
theorem subgrid_to_grid_answers (numFaces numCells : Nat) (locFaces locCells : List Nat) (nd : Nat)
    (hf : ∀ f ∈ locFaces, f < numFaces) (hc : ∀ c ∈ locCells, c < numCells) :
    subgridToGrid numFaces numCells locFaces locCells nd
      = .ok (expandNd locFaces nd, expandNd locCells nd) := by
  have key : ∀ (ind : List Nat) (n : Nat), (∀ i ∈ ind, i < n) →
      (expandNd ind nd).any (fun i => decide (n * nd ≤ i)) = false := by
    intro ind n h
    apply Bool.eq_false_iff.mpr
    intro hany
    obtain ⟨v, hv, hdec⟩ := List.any_eq_true.mp hany
    simp only [expandNd, List.mem_flatMap, List.mem_map, List.mem_range] at hv
    obtain ⟨i, hi, d, hd, rfl⟩ := hv
    have := h i hi
    have h2 : nd * (i + 1) ≤ nd * n := Nat.mul_le_mul_left _ this
    rw [Nat.mul_succ, Nat.mul_comm nd n] at h2
    simp at hdec
    omega
  unfold subgridToGrid
  simp only [key locFaces numFaces hf, key locCells numCells hc, Bool.or_self, Bool.false_eq_true, if_false]

/-- the decidable input conditions evaluated by the driver are the hypotheses of the theorems -/
theorem hypotheses_decidable (fine coarse : List Nat) (axes : List Axis) (x : List Rat) :
    (dimsOkB fine coarse = true ↔ DimsOk fine coarse) ∧ (allOkB axes x = true ↔ AllOk axes x) := by
  constructor
  · simp [dimsOkB, DimsOk, List.all_eq_true]
  · induction axes generalizing x with
    | nil => cases x <;> simp [allOkB, AllOk]
    | cons a as ih =>
      cases x with
      | nil => simp [allOkB, AllOk]
      | cons x xs => simp [allOkB, AllOk, AxisOk, ih xs, and_assoc]

/-- `partition_structured(coarse_dims=…)` on 1–3 axes with positive coarse sizes answers iff
    `coarse ≤ fine` on every axis (otherwise ValueError: `fine_per_coarse = 0`). -/
theorem partition_structured_answers_iff (fine coarse : List Nat) (hl : fine.length = coarse.length)
    (hnd : 1 ≤ fine.length ∧ fine.length ≤ 3) (hpos : ∀ c ∈ coarse, 1 ≤ c) :
    (∃ p, partitionStructured fine coarse = .ok p) ↔ DimsOk fine coarse := by
  have hbad : ∀ f c, 1 ≤ c → (axisBad f c = false ↔ c ≤ f) := by
    intro f c hc
    simp only [axisBad, Bool.and_eq_false_iff, decide_eq_false_iff_not]
    constructor
    · rintro (h | h)
      · omega
      · rcases Nat.lt_or_ge f c with hlt | hge
        · exact absurd (Nat.div_eq_of_lt hlt) h
        · exact hge
    · intro h
      right
      have := Nat.div_pos h (by omega)
      omega
  rcases fine with _ | ⟨f0, _ | ⟨f1, _ | ⟨f2, _ | ⟨f3, fs⟩⟩⟩⟩
  · simp at hnd
  · rcases coarse with _ | ⟨c0, _ | ⟨c1, cs⟩⟩ <;> simp at hl
    have p0 := hpos c0 (by simp)
    simp only [partitionStructured, DimsOk, List.zip_cons_cons, List.zip_nil_left, List.mem_cons,
      List.not_mem_nil, or_false, forall_eq]
    by_cases hb : axisBad f0 c0 = true
    · have : ¬ c0 ≤ f0 := fun h => by rw [(hbad f0 c0 p0).mpr h] at hb; cases hb
      simp [hb, this]
    · have : c0 ≤ f0 := (hbad f0 c0 p0).mp (by simpa using hb)
      simp [hb, this, p0]
  · rcases coarse with _ | ⟨c0, _ | ⟨c1, _ | ⟨c2, cs⟩⟩⟩ <;> simp at hl
    have p0 := hpos c0 (by simp)
    have p1 := hpos c1 (by simp)
    constructor
    · rintro ⟨p, hp⟩
      intro q hq
      simp at hq
      unfold partitionStructured at hp
      simp only at hp
      split at hp
      · cases hp
      · rename_i hb
        simp only [Bool.or_eq_true, not_or, Bool.not_eq_true] at hb
        rcases hq with rfl | rfl
        · exact ⟨p0, (hbad _ _ p0).mp hb.1⟩
        · exact ⟨p1, (hbad _ _ p1).mp hb.2⟩
    · intro hd
      exact ⟨_, ps2 (hd (f0, c0) (by simp)) (hd (f1, c1) (by simp))⟩
  · rcases coarse with _ | ⟨c0, _ | ⟨c1, _ | ⟨c2, _ | ⟨c3, cs⟩⟩⟩⟩ <;> simp at hl
    have p0 := hpos c0 (by simp)
    have p1 := hpos c1 (by simp)
    have p2 := hpos c2 (by simp)
    constructor
    · rintro ⟨p, hp⟩
      intro q hq
      simp at hq
      unfold partitionStructured at hp
      simp only at hp
      split at hp
      · cases hp
      · rename_i hb
        simp only [Bool.or_eq_true, not_or, Bool.not_eq_true] at hb
        rcases hq with rfl | rfl | rfl
        · exact ⟨p0, (hbad _ _ p0).mp hb.1.1⟩
        · exact ⟨p1, (hbad _ _ p1).mp hb.1.2⟩
        · exact ⟨p2, (hbad _ _ p2).mp hb.2⟩
    · intro hd
      exact ⟨_, ps3 (hd (f0, c0) (by simp)) (hd (f1, c1) (by simp)) (hd (f2, c2) (by simp))⟩
  · simp at hnd

/-- the `partition` wrapper on a tensor grid (no pymetis) = `partition_structured(num_part=…)`: in range, total -/
theorem partition_wrapper_tensor (num : Nat) (fine : List Nat) (hf : ∀ f ∈ fine, 1 ≤ f)
    (hnd : 1 ≤ fine.length ∧ fine.length ≤ 3) :
    ∃ c p, dcd exactRoot num fine = .ok c ∧ partitionWrapperTensor num fine = .ok p ∧
      p.length = fine.foldl (· * ·) 1 ∧
      (∀ x ∈ p, 0 ≤ x ∧ x < ((c.foldl (· * ·) 1 : Nat) : Int)) ∧
      (∀ q : Nat, q < c.foldl (· * ·) 1 → (q : Int) ∈ p) := by
  obtain ⟨c, p, h1, h2, h3, h4, h5, _⟩ := partition_structured_num_part exactRoot exactRoot_ok num fine hf hnd
  refine ⟨c, p, h1, ?_, h3, h4, h5⟩
  unfold partitionWrapperTensor
  rw [h1]
  exact h2

/-! ## non-vacuity: concrete instances (regression inputs of the repaired defects F11/F12 among them) -/

/-- 2×1 Cartesian grid: faces 0–2 vertical, 3–4 bottom, 5–6 top; nodes 0–2 bottom row, 3–5 top row -/
abbrev g21 : Topo :=
  { cfFaces := [[0, 1, 3, 5], [1, 2, 4, 6]], cfSigns := [[-1, 1, -1, 1], [-1, 1, -1, 1]],
    fn := [[0, 3], [1, 4], [2, 5], [0, 1], [1, 2], [3, 4], [4, 5]] }

example : (extract g21 [1] true).toOption.map (fun r => (r.cells, r.faceMap, r.nodeMap))
    = some ([1], [1, 2, 4, 6], [1, 2, 4, 5]) := by decide +kernel

example : (extract g21 [1] true).toOption.map (fun r => (r.cfFaces, r.cfSigns, r.fn))
    = some ([[0, 1, 2, 3]], [[-1, 1, -1, 1]], [[0, 2], [1, 3], [0, 1], [2, 3]]) := by decide +kernel

example : (extract g21 [1, 0] false).toOption.map (fun r => (r.cells, r.faceMap, r.cfFaces))
    = some ([1, 0], [0, 1, 2, 3, 4, 5, 6], [[1, 2, 4, 6], [0, 1, 3, 5]]) := by decide +kernel

/-- a duplicated cell makes a boundary face count twice: the `Grid` constructor refuses (ValueError) -/
example : (extract g21 [0, 0] true).toOption.isNone = true := by decide +kernel

/-- faces 1 (interior, vertical) and 3 (bottom left) of the 2×1 grid as a 1-d grid: they share node 1 -/
example : (extractFaces2 g21.fn [1, 3]).toOption.map (fun r => (r.nodeMap, r.cfFaces, r.cfSigns))
    = some ([0, 1, 4], [[1, 2], [0, 1]], [[1, 1], [1, -1]]) := by decide +kernel

example : partCells [2, 0, 2, 5] = [[1], [0, 2], [3]] := by decide +kernel

example : DimsOk [11, 2] [4, 2] := by
  intro q hq
  simp at hq
  rcases hq with rfl | rfl <;> simp

/-- F12 regression: 11×2 cells into 4×2 parts: ids 0..7, the surplus cells join the last block -/
example : (partitionStructured [11, 2] [4, 2]).toOption
    = some [0, 0, 1, 1, 2, 2, 3, 3, 3, 3, 3, 4, 4, 5, 5, 6, 6, 7, 7, 7, 7, 7] := by decide +kernel

example : (partitionStructured [3, 2, 2] [2, 1, 2]).toOption
    = some [0, 1, 1, 0, 1, 1, 2, 3, 3, 2, 3, 3] := by decide +kernel

example : axisIdx 11 4 = [0, 0, 1, 1, 2, 2, 3, 3, 3, 3, 3] := by decide +kernel

/-- F11 regression: `overlap(CartGrid([1,1]), [0], 1)` and `overlap(CartGrid([3,1]), [1], 0)` (node criterion) -/
example : (overlap [[0, 1, 2, 3]] [0] 1).toOption = some [0] := by decide +kernel
example : (overlap [[0, 1, 4, 5], [1, 2, 5, 6], [2, 3, 6, 7]] [1] 0).toOption = some [1] := by decide +kernel

/-- 4×1 grid, node criterion: one layer around cell 0 adds cell 1, two layers add cell 2 -/
example : overlapCells [[0, 1, 5, 6], [1, 2, 6, 7], [2, 3, 7, 8], [3, 4, 8, 9]] [0] 1 = [0, 1] := by decide +kernel
example : overlapCells [[0, 1, 5, 6], [1, 2, 6, 7], [2, 3, 7, 8], [3, 4, 8, 9]] [0] 2 = [0, 1, 2] := by decide +kernel

/-- 3-d → 2-d: the two unit squares {0,1,4,3} and {1,2,5,4} (nodes of a 2×1 patch, given as two "faces") share
    the edge {1,4}: 7 distinct edges, the shared one with signs −1 (first cell) and +1 (second cell) -/
example : (extractFaces3 [[0, 1, 4, 3], [1, 2, 5, 4]] [0, 1]).toOption.map (fun r => (r.nodeMap, r.fn))
    = some ([0, 1, 2, 3, 4, 5], [[0, 1], [3, 0], [1, 2], [1, 4], [2, 5], [4, 3], [5, 4]]) := by decide +kernel
example : (extractFaces3 [[0, 1, 4, 3], [1, 2, 5, 4]] [0, 1]).toOption.map (fun r => (r.cfFaces, r.cfSigns))
    = some ([[0, 3, 5, 1], [2, 4, 6, 3]], [[-1, -1, -1, -1], [-1, -1, -1, 1]]) := by decide +kernel

/-- `determine_coarse_dimensions`: the observation (50, [2,5,5]) ↦ [2,4,4] (index-array `np.any`), a perfect
    cube, a prime target, a target beyond the cell count -/
example : (dcd exactRoot 50 [2, 5, 5]).toOption = some [2, 4, 4] := by decide +kernel
example : (dcd exactRoot 50 [5, 5, 2]).toOption = some [5, 5, 2] := by decide +kernel
example : (dcd exactRoot 64 [4, 5, 6]).toOption = some [4, 4, 4] := by decide +kernel
example : (dcd exactRoot 7 [11, 11]).toOption = some [3, 2] := by decide +kernel
example : (dcd exactRoot 16 [11, 11]).toOption = some [4, 4] := by decide +kernel
example : exactRoot 3 64 1 = (4, 4) ∧ exactRoot 2 50 2 = (5, 5) ∧ exactRoot 2 7 1 = (2, 3) := by decide +kernel

/-- CartGrid([4,3]) with 2×2 boxes: cells (½,½), (5/2,½), (7/2,5/2) land in boxes 0, 2, 3 (C order, x slowest);
    a centre exactly on the upper node extent is in no box: the code's assertion fires -/
example : (pcoord [⟨0, 4, 2⟩, ⟨0, 3, 2⟩] [[1/2, 1/2], [5/2, 1/2], [7/2, 5/2]]).toOption = some [0, 2, 3] := by
  decide +kernel
example : (pcoord [⟨0, 4, 2⟩] [[4]]).toOption = none := by decide +kernel
example : AllOk [⟨0, 4, 2⟩, ⟨0, 3, 2⟩] [5/2, 1/2] := by
  refine ⟨⟨by decide, by decide +kernel, by decide +kernel⟩, ⟨by decide, by decide +kernel, by decide +kernel⟩, trivial⟩

/-- geometry locality on the 2×1 grid with unit-square coordinates: cell 1 extracted alone sees the same
    four signed faces with the same node coordinates -/
example : cellData [[0, 1, 2, 3]] [[-1, 1, -1, 1]] [[0, 2], [1, 3], [0, 1], [2, 3]]
      (subCoords [[0, 0], [1, 0], [2, 0], [0, 1], [1, 1], [2, 1]] [1, 2, 4, 5]) 0
    = cellData g21.cfFaces g21.cfSigns g21.fn [[0, 0], [1, 0], [2, 0], [0, 1], [1, 1], [2, 1]] 1 := by
  decide +kernel

example : expandNd [1, 4] 2 = [2, 3, 8, 9] := by decide +kernel
example : (subgridToGrid 5 3 [1, 4] [2] 2).toOption = some ([2, 3, 8, 9], [4, 5]) := by decide +kernel
example : (subgridToGrid 4 3 [1, 4] [2] 1).toOption = none := by decide +kernel
example : (partitionWrapperTensor 3 [5, 2]).toOption = some [0, 0, 0, 0, 0, 1, 1, 1, 1, 1] := by decide +kernel
example : dimsOkB [11, 2] [4, 2] = true ∧ dimsOkB [5] [7] = false := by decide +kernel
example : allOkB [⟨0, 4, 2⟩, ⟨0, 3, 2⟩] [5/2, 1/2] = true ∧ allOkB [⟨0, 4, 2⟩] [4] = false := by decide +kernel

end PorepyVerif.C22
