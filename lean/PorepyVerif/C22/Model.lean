/-
C22 — executable model of the index bookkeeping in `porepy/grids/partition.py` (core Lean only).

A grid's topology is given the way the compressed-column matrices store it:
  `cfFaces[c]` / `cfSigns[c]`  = row indices / data of column `c` of `g.cell_faces` (csc),
  `fn[f]`                      = row indices of column `f` of `g.face_nodes` (csc), in stored order.

Modelled functions (as the code is NOW, after the repairs of F11/F12):
  (a) `_extract_submatrix`, `extract_subgrid` (cells; boolean masks; `sort`; the `Grid` constructor's
      orientation check), `_extract_cells_from_faces_{1d,2d,3d}`, `partition_grid`;
  (b) `partition_structured` (per-axis coarse index and the 1-D/2-D/3-D combination) and
      `determine_coarse_dimensions` over integers (exact integer n-th roots instead of float `np.power`);
  (c) `overlap` (both criteria: the caller passes the cell→node or the cell→face relation).
-/
namespace PorepyVerif.C22

inductive Err where
  | index      -- IndexError
  | value      -- ValueError
  | assertion  -- AssertionError
  deriving DecidableEq, Repr

/-! ### sorting primitives (structural recursion) -/

/-- insert into a strictly increasing list, dropping duplicates -/
def insertU (x : Nat) : List Nat → List Nat
  | [] => [x]
  | a :: l => if x < a then x :: a :: l else if x = a then a :: l else a :: insertU x l

/-- `np.unique`: sorted, distinct values -/
def usort : List Nat → List Nat
  | [] => []
  | x :: l => insertU x (usort l)

/-- insert into a sorted list, keeping duplicates -/
def insertS (x : Nat) : List Nat → List Nat
  | [] => [x]
  | a :: l => if x ≤ a then x :: a :: l else a :: insertS x l

/-- `np.sort` -/
def isort : List Nat → List Nat
  | [] => []
  | x :: l => insertS x (isort l)

/-- `np.where(mask)[0]` -/
def whereTrue (mask : List Bool) : List Nat :=
  (List.range mask.length).filter (fun i => mask.getD i false)

/-! ### (a) sub-grid extraction -/

structure Topo where
  cfFaces : List (List Nat)
  cfSigns : List (List Int)
  fn : List (List Nat)

/-- `slice_sparse_matrix(mat, ind)`: the selected columns, in the order of `ind` -/
def subCols {α : Type} (m : List (List α)) (ind : List Nat) : List (List α) :=
  ind.map (fun i => m.getD i [])

/-- `unique_rows` of `np.unique(sub_mat.indices, return_inverse=True)` -/
def uniqueRows (cols : List (List Nat)) : List Nat := usort cols.flatten

/-- `rows_sub` of the same call: every stored row index replaced by its position in `unique_rows` -/
def renumber (u : List Nat) (cols : List (List Nat)) : List (List Nat) :=
  cols.map (fun col => col.map (fun r => u.idxOf r))

/-- `_extract_submatrix(mat, ind)` = (local columns, global row of every local row) -/
def extractSub (m : List (List Nat)) (ind : List Nat) : List (List Nat) × List Nat :=
  let cols := subCols m ind
  let u := uniqueRows cols
  (renumber u cols, u)

/-- `cell_faces.sum(axis=1)[lf]` of the local matrix -/
def rowSum (cfLoc : List (List Nat)) (sg : List (List Int)) (lf : Nat) : Int :=
  ((cfLoc.flatten.zip sg.flatten).filter (fun p => p.1 == lf)).foldl (fun a p => a + p.2) 0

/-- `np.any(np.abs(cell_faces.sum(axis=1)) > 1)` in `Grid.__init__` -/
def orientationBad (cfLoc : List (List Nat)) (sg : List (List Int)) (nf : Nat) : Bool :=
  (List.range nf).any (fun lf => decide (1 < (rowSum cfLoc sg lf).natAbs))

structure Sub where
  cells : List Nat
  faceMap : List Nat
  nodeMap : List Nat
  cfFaces : List (List Nat)
  cfSigns : List (List Int)
  fn : List (List Nat)

/-- `extract_subgrid(g, c, faces=False)` after the optional sorting of `c` -/
def extractCore (g : Topo) (c : List Nat) : Except Err Sub :=
  if c.any (fun i => decide (g.cfFaces.length ≤ i)) then .error .index else
  let cf := extractSub g.cfFaces c
  if cf.2.any (fun f => decide (g.fn.length ≤ f)) then .error .index else
  let fnn := extractSub g.fn cf.2
  let sg := subCols g.cfSigns c
  if orientationBad cf.1 sg cf.2.length then .error .value else
  .ok { cells := c, faceMap := cf.2, nodeMap := fnn.2, cfFaces := cf.1, cfSigns := sg, fn := fnn.1 }

/-- `extract_subgrid(g, c, sort, faces=False)` on index arrays -/
def extract (g : Topo) (c : List Nat) (sort : Bool) : Except Err Sub :=
  extractCore g (if sort then isort c else c)

/-! ### geometric input of faces and cells (what `compute_geometry` reads) -/

/-- node coordinates of the sub-grid: `g.nodes[:, unique_nodes]` -/
def subCoords (coords : List (List Rat)) (nodeMap : List Nat) : List (List Rat) :=
  nodeMap.map (fun n => coords.getD n [])

/-- geometric input of a face: the coordinates of its nodes, in stored order -/
def faceData (fn : List (List Nat)) (coords : List (List Rat)) (f : Nat) : List (List Rat) :=
  (fn.getD f []).map (fun n => coords.getD n [])

/-- geometric input of a cell: its faces in stored order, each with its sign and its node coordinates -/
def cellData (cfF : List (List Nat)) (cfS : List (List Int)) (fn : List (List Nat))
    (coords : List (List Rat)) (c : Nat) : List (Int × List (List Rat)) :=
  ((cfF.getD c []).zip (cfS.getD c [])).map (fun p => (p.2, faceData fn coords p.1))

/-- boolean-mask entry of `extract_subgrid` -/
def extractMask (g : Topo) (mask : List Bool) (sort : Bool) : Except Err Sub :=
  if mask.length ≠ g.cfFaces.length then .error .index else extract g (whereTrue mask) sort

/-- for every position: is it the first occurrence of its value (given the values seen before)? -/
def firstOccAux (seen : List Nat) : List Nat → List Bool
  | [] => []
  | x :: l => (!seen.contains x) :: firstOccAux (x :: seen) l

/-- column-shaped data vector: `first` at the first occurrence of every row index (over the whole
    flattened index array, as `np.unique(indices, return_index=True)` finds it), `other` elsewhere -/
def signCols (first other : Int) (seen : List Nat) : List (List Nat) → List (List Int)
  | [] => []
  | col :: rest =>
    (firstOccAux seen col).map (fun b => if b then first else other)
      :: signCols first other (col.reverse ++ seen) rest

/-- result of `extract_subgrid(g, f, faces=True)`: the lower-dimensional grid's topology -/
structure FaceSub where
  faces : List Nat
  nodeMap : List Nat
  cfFaces : List (List Nat)
  cfSigns : List (List Int)
  fn : List (List Nat)

/-- `_extract_cells_from_faces_2d`: faces of a 2-D grid become cells of a 1-D grid whose faces are nodes -/
def extractFaces2 (fn : List (List Nat)) (f : List Nat) : Except Err FaceSub :=
  if f.any (fun i => decide (fn.length ≤ i)) then .error .index else
  let cn := extractSub fn f
  let sg := signCols 1 (-1) [] cn.1
  if orientationBad cn.1 sg cn.2.length then .error .value else   -- a node shared by ≥ 4 of the faces
  .ok { faces := f, nodeMap := cn.2, cfFaces := cn.1, cfSigns := sg,
        fn := (List.range cn.2.length).map (fun i => [i]) }

/-- consecutive node pairs of a polygon (`next_node` wraps around at the end of every column) -/
def cyclicEdges (col : List Nat) : List (Nat × Nat) := col.zip (col.drop 1 ++ col.take 1)

/-- lexicographic key of an undirected edge (columns of `face_nodes_sorted`) -/
def edgeKey (m : Nat) (e : Nat × Nat) : Nat := min e.1 e.2 * m + max e.1 e.2

/-- `_extract_cells_from_faces_3d`: faces of a 3-D grid become cells of a 2-D grid whose faces are the
    distinct edges, ordered lexicographically by (smaller node, larger node), each keeping the orientation
    of its first occurrence; the first occurrence gets sign −1, later ones +1 -/
def extractFaces3 (fn : List (List Nat)) (f : List Nat) : Except Err FaceSub :=
  if f.any (fun i => decide (fn.length ≤ i)) then .error .index else
  let cn := extractSub fn f
  let m := cn.2.length + 1
  let ecols := cn.1.map cyclicEdges
  let es := ecols.flatten
  let keys := es.map (edgeKey m)
  let ukeys := usort keys
  let cf := ecols.map (fun col => col.map (fun e => ukeys.idxOf (edgeKey m e)))
  let sg := signCols (-1) 1 [] cf
  if orientationBad cf sg ukeys.length then .error .value else    -- an edge shared by ≥ 4 of the faces
  .ok { faces := f, nodeMap := cn.2, cfFaces := cf, cfSigns := sg,
        fn := ukeys.map (fun k => let e := es.getD (keys.idxOf k) (0, 0); [e.1, e.2]) }

/-- `_extract_cells_from_faces_1d`: exactly one face (a point); returns its nodes -/
def extractFaces1 (fn : List (List Nat)) (f : List Nat) : Except Err (List Nat) :=
  match f with
  | [i] => if fn.length ≤ i then .error .index else .ok (fn.getD i [])
  | _ => .error .assertion

/-- cells of every part: `np.argwhere(ind == i)` for `i in np.unique(ind)` -/
def partCells (ind : List Nat) : List (List Nat) :=
  (usort ind).map (fun i => (List.range ind.length).filter (fun c => ind.getD c 0 == i))

/-- `partition_grid(g, ind)` -/
def partitionGrid (g : Topo) (ind : List Nat) : List (Except Err Sub) :=
  (partCells ind).map (fun cs => extract g cs true)

/-! ### (b) `partition_structured` -/

/-- `np.arange(0, f, step)` for an integer-valued step ≥ 1 -/
def arange (f step : Nat) : List Nat := (List.range ((f + step - 1) / step)).map (· * step)

/-- fine indices where the coarse index increases (after trimming to `coarse` entries) -/
def incrInd (f c : Nat) : List Nat :=
  if c = 0 then [] else    -- numpy: step = inf, arange = [0], trimmed to the first 0 entries
  let a := arange f (f / c)
  if a.length > c then a.take c else a

/-- `loc_ind`: zeros with ones at `incr_ind` -/
def locInd (f c : Nat) : List Int :=
  (List.range f).map (fun i => if (incrInd f c).contains i then 1 else 0)

def cumsumFrom (acc : Int) : List Int → List Int
  | [] => []
  | x :: l => (acc + x) :: cumsumFrom (acc + x) l

/-- per-axis coarse index `np.cumsum(loc_ind) - 1` -/
def axisIdx (f c : Nat) : List Int := (cumsumFrom 0 (locInd f c)).map (· - 1)

/-- 2-D: `(xi + yi * coarse_dims[0]).ravel()` of `meshgrid(ind[0], ind[1])` : y outer, x inner -/
def combine2 (xi yi : List Int) (c0 : Nat) : List Int :=
  yi.flatMap (fun y => xi.map (fun x => x + y * c0))

/-- 3-D: after the two `swapaxes`, z is the outermost and x the innermost loop -/
def combine3 (xi yi zi : List Int) (c0 c1 : Nat) : List Int :=
  zi.flatMap (fun z => yi.flatMap (fun y => xi.map (fun x => x + y * c0 + z * ((c0 * c1 : Nat) : Int))))

/-- an axis with more coarse than fine cells has `fine_per_coarse = 0`; `np.arange(0, f, 0)` raises ValueError -/
def axisBad (f c : Nat) : Bool := decide (0 < c) && decide (f / c = 0)

/-- `partition_structured(g, coarse_dims=coarse)` with `g.cart_dims = fine` -/
def partitionStructured (fine coarse : List Nat) : Except Err (List Int) :=
  match fine, coarse with
  | [f0], [c0] =>
    if axisBad f0 c0 then .error .value else .ok (axisIdx f0 c0)
  | [f0, f1], [c0, c1] =>
    if axisBad f0 c0 || axisBad f1 c1 then .error .value else
    .ok (combine2 (axisIdx f0 c0) (axisIdx f1 c1) c0)
  | [f0, f1, f2], [c0, c1, c2] =>
    if axisBad f0 c0 || axisBad f1 c1 || axisBad f2 c2 then .error .value else
    .ok (combine3 (axisIdx f0 c0) (axisIdx f1 c1) (axisIdx f2 c2) c0 c1)
  | _, _ => .error .value

/-! ### `determine_coarse_dimensions` (integers; the float n-th root is replaced by its exact value) -/

def prodL (l : List Nat) : Nat := l.foldl (· * ·) 1

/-- largest `m ≤ n` with `m^k · q ≤ p` (0 if there is none) -/
def rootFloorAux (k p q : Nat) : Nat → Nat
  | 0 => 0
  | n + 1 => if (n + 1) ^ k * q ≤ p then n + 1 else rootFloorAux k p q n

/-- `⌊(p/q)^(1/k)⌋` : `np.floor(np.power(target / optimum.prod(), 1 / k))` in exact arithmetic -/
def rootFloor (k p q : Nat) : Nat := rootFloorAux k p q p

/-- `⌈(p/q)^(1/k)⌉` -/
def rootCeil (k p q : Nat) : Nat :=
  if rootFloor k p q ^ k * q = p then rootFloor k p q else rootFloor k p q + 1

def exactRoot (k p q : Nat) : Nat × Nat := (rootFloor k p q, rootCeil k p q)

/-- one axis of the search: fine size, current optimum, found flag -/
structure Dim where
  fine : Nat
  opt : Nat
  found : Bool

/-- `multinary_permutations(2, n)`: all bit vectors, first digit fastest -/
def perms : Nat → List (List Bool)
  | 0 => [[]]
  | n + 1 => (perms n).flatMap (fun rest => [false :: rest, true :: rest])

/-- dimension hits the ceiling: `s_high == fine_size` and not yet found -/
def isHit (hi : Nat) (d : Dim) : Bool := decide (min d.fine hi = d.fine) && !d.found

/-- `optimum[hit_ceil] = s_high[hit_ceil]; found[hit_ceil] = True` -/
def hitUpdate (hi : Nat) (d : Dim) : Dim :=
  if isHit hi d then { d with opt := min d.fine hi, found := true } else d

/-- `size_now[i] = coarse_size[bit, i]` with `s_low[found] = s_high[found] = optimum[found]`,
    `s_low = max(1, ⌊s⌋)`, `s_high = min(fine, ⌈s⌉)` elsewhere -/
def pickD (lo hi : Nat) : List Dim → List Bool → List Nat
  | d :: ds, b :: bs =>
    (if d.found then d.opt else if b then min d.fine hi else max 1 lo) :: pickD lo hi ds bs
  | _, _ => []

/-- the loop over all roundings: `if abs(target - prod) < dist: dist = target - prod; optimum = size_now`
    (the new `dist` is signed, as coded) -/
def searchPerms (target : Int) : List (List Nat) → Int → List Nat → List Nat
  | [], _, opt => opt
  | s :: rest, dist, opt =>
    if ((target - (prodL s : Int)).natAbs : Int) < dist then searchPerms target rest (target - (prodL s : Int)) s
    else searchPerms target rest dist opt

/-- the `while` loop; `root k p q` supplies (⌊·⌋, ⌈·⌉) of `(p/q)^(1/k)`; `it` = `it_counter`.
    Running out of fuel or `it_counter > nd` is the code's `ValueError("... bug somewhere")`. -/
def dcdLoop (root : Nat → Nat → Nat → Nat × Nat) (target nd fineProd : Nat) :
    Nat → Nat → List Dim → Except Err (List Nat)
  | 0, _, _ => .error .value
  | fuel + 1, it, dims =>
    if dims.all (·.found) || decide (nd < it) then
      if nd < it then .error .value else .ok (dims.map (·.opt))
    else
      let r := root (dims.countP (fun d => !d.found)) target (prodL (dims.map (·.opt)))
      let dims' := dims.map (hitUpdate r.2)
      -- `np.any(hit_ceil)` on the INDEX array: true iff a dimension other than 0 hit the ceiling
      if ((dims.map (isHit r.2)).drop 1).any id then dcdLoop root target nd fineProd fuel (it + 1) dims'
      else
        if nd < it + 1 then .error .value else
        .ok (searchPerms target ((perms nd).map (pickD r.1 r.2 dims')) fineProd (dims'.map (·.opt)))

/-- `determine_coarse_dimensions(target, fine_size)` -/
def dcd (root : Nat → Nat → Nat → Nat × Nat) (target : Nat) (fine : List Nat) : Except Err (List Nat) :=
  dcdLoop root (max 1 (min target (prodL fine))) fine.length (prodL fine) (fine.length + 2) 0
    (fine.map (fun f => { fine := f, opt := 1, found := false }))

/-! ### `partition_coordinates`: box search over exact rationals -/

/-- one active coordinate axis: extent of the nodes `[lo, hi]`, number of coarse boxes `c` -/
structure Axis where
  lo : Rat
  hi : Rat
  c : Nat

/-- `lower_coord[j] <= cc[j] < upper_coord[j]` for box number `k` along the axis, `dx = delta / coarse_dims` -/
def inBox (a : Axis) (k : Nat) (x : Rat) : Bool :=
  decide (a.lo + (a.hi - a.lo) / (a.c : Rat) * (k : Rat) ≤ x) &&
  decide (x < a.lo + (a.hi - a.lo) / (a.c : Rat) * ((k : Rat) + 1))

/-- `np.all(hit, axis=0)` for one cell -/
def hitAll : List Axis → List Nat → List Rat → Bool
  | a :: as, k :: ks, x :: xs => inBox a k x && hitAll as ks xs
  | [], [], [] => true
  | _, _, _ => false

/-- `np.unravel_index(i, dims)` (C order: last axis fastest) -/
def unravel : List Nat → Nat → List Nat
  | [], _ => []
  | _ :: cs, i => (i / prodL cs) :: unravel cs (i % prodL cs)

/-- the loop `for i in range(nc): partition[hit_ind] = i`, started from −1, for one cell centre -/
def assignBox (axes : List Axis) (x : List Rat) : Int :=
  (List.range (prodL (axes.map (·.c)))).foldl
    (fun acc i => if hitAll axes (unravel (axes.map (·.c)) i) x then (i : Int) else acc) (-1)

/-- the box search of `partition_coordinates` (connectivity check off); `assert partition.min() >= 0` -/
def pcoord (axes : List Axis) (centers : List (List Rat)) : Except Err (List Int) :=
  let p := centers.map (assignBox axes)
  if p.any (fun v => decide (v < 0)) then .error .assertion else .ok p

/-- smallest distance of a coordinate to a box boundary along its axis (decision margin of the float code) -/
def axisMargin (a : Axis) (x : Rat) : Rat :=
  ((List.range (a.c + 1)).map (fun (k : Nat) =>
      let d := x - (a.lo + (a.hi - a.lo) / (a.c : Rat) * (k : Rat)); if d < 0 then -d else d)).foldl
    (fun m d => if d < m then d else m) (if a.hi - a.lo < 0 then a.lo - a.hi else a.hi - a.lo)

/-! ### `subgrid_to_grid_mapping` and the `partition` wrapper -/

/-- `expand_indices_nd(ind, nd)` (Fortran order): index `i` becomes `nd*i, …, nd*i + nd-1` -/
def expandNd (ind : List Nat) (nd : Nat) : List Nat :=
  ind.flatMap (fun i => (List.range nd).map (fun d => nd * i + d))

/-- `subgrid_to_grid_mapping`: both results are 0/1 selection matrices, given here by the position of the
    single one in every column of `face_map` (shape `numFaces·nd × len·nd`) and in every row of `cell_map`
    (shape `len·nd × numCells·nd`); scalar case `nd = 1`.  scipy refuses indices beyond the shape. -/
def subgridToGrid (numFaces numCells : Nat) (locFaces locCells : List Nat) (nd : Nat) :
    Except Err (List Nat × List Nat) :=
  let fr := expandNd locFaces nd
  let cc := expandNd locCells nd
  if fr.any (fun i => decide (numFaces * nd ≤ i)) || cc.any (fun i => decide (numCells * nd ≤ i)) then .error .value
  else .ok (fr, cc)

/-- `partition(g, num_coarse)` without pymetis on a tensor grid: `partition_structured(g, num_part=num_coarse)` -/
def partitionWrapperTensor (num : Nat) (fine : List Nat) : Except Err (List Int) :=
  match dcd exactRoot num fine with
  | .error e => .error e
  | .ok c => partitionStructured fine c

/-- decidable form of the hypothesis `1 ≤ coarse ≤ fine` of the `partition_structured` theorems -/
def dimsOkB (fine coarse : List Nat) : Bool :=
  (fine.zip coarse).all (fun q => decide (1 ≤ q.2) && decide (q.2 ≤ q.1))

/-- decidable form of the hypothesis of `partition_coordinates_total` for one centre -/
def allOkB : List Axis → List Rat → Bool
  | a :: as, x :: xs => decide (1 ≤ a.c) && decide (a.lo ≤ x) && decide (x < a.hi) && allOkB as xs
  | [], [] => true
  | _, _ => false

/-! ### (c) `overlap` -/

/-- entities (nodes or faces) of a set of cells: `cn * active_cells > 0` -/
def touched (ce : List (List Nat)) (cells : List Nat) : List Nat :=
  cells.flatMap (fun c => ce.getD c [])

/-- cells having at least one active entity: `cn.T * active_nodes > 0` -/
def hits (ce : List (List Nat)) (ents : List Nat) : List Nat :=
  (List.range ce.length).filter (fun c => (ce.getD c []).any (fun e => ents.contains e))

/-- one pass of the loop body; state = (active cells, active entities), both only ever grow -/
def layer (ce : List (List Nat)) (st : List Nat × List Nat) : List Nat × List Nat :=
  let ents := st.2 ++ touched ce st.1
  (st.1 ++ hits ce ents, ents)

def layers (ce : List (List Nat)) : Nat → List Nat × List Nat → List Nat × List Nat
  | 0, st => st
  | k + 1, st => layer ce (layers ce k st)

/-- `np.sort(np.argwhere(active_cells > 0).ravel())` after `k` layers started from `cells` -/
def overlapCells (ce : List (List Nat)) (cells : List Nat) (k : Nat) : List Nat :=
  (List.range ce.length).filter (fun c => (layers ce k (cells, [])).1.contains c)

/-- `overlap(g, cell_ind, num_layers, criterion)`; `ce` = cell→node or cell→face relation -/
def overlap (ce : List (List Nat)) (cells : List Nat) (k : Nat) : Except Err (List Nat) :=
  if cells.any (fun c => decide (ce.length ≤ c)) then .error .index else .ok (overlapCells ce cells k)

end PorepyVerif.C22
