/-
C22 — executable model of the index bookkeeping in `porepy/grids/partition.py` (core Lean only).

A grid's topology is given the way the compressed-column matrices store it:
  `cfFaces[c]` / `cfSigns[c]`  = row indices / data of column `c` of `g.cell_faces` (csc),
  `fn[f]`                      = row indices of column `f` of `g.face_nodes` (csc), in stored order.

Modelled functions (as the code is NOW, after the repairs of F11/F12):
  (a) `_extract_submatrix`, `extract_subgrid` (cells; boolean masks; `sort`; the `Grid` constructor's
      orientation check), `_extract_cells_from_faces_{1d,2d,3d}`, `partition_grid`;
  (b) `partition_structured` (per-axis coarse index and the 2-D/3-D combination; the 1-D branch follows the
      property, i.e. the proposed repair `fixes/C22-partition-structured-1d.diff`);
  (c) `overlap` (both criteria: the caller passes the cell→node or the cell→face relation).
-/
namespace PorepyVerif.C22

inductive Err where
  | index      -- IndexError
  | value      -- ValueError
  | assertion  -- AssertionError
  deriving DecidableEq, Repr

/-! ### sorting primitives (structural recursion) -/

/-- insert into a strictly increasing list, dropping duplicates -/
def insertU (x : Nat) : List Nat → List Nat
  | [] => [x]
  | a :: l => if x < a then x :: a :: l else if x = a then a :: l else a :: insertU x l

/-- `np.unique`: sorted, distinct values -/
def usort : List Nat → List Nat
  | [] => []
  | x :: l => insertU x (usort l)

/-- insert into a sorted list, keeping duplicates -/
def insertS (x : Nat) : List Nat → List Nat
  | [] => [x]
  | a :: l => if x ≤ a then x :: a :: l else a :: insertS x l

/-- `np.sort` -/
def isort : List Nat → List Nat
  | [] => []
  | x :: l => insertS x (isort l)

/-- `np.where(mask)[0]` -/
def whereTrue (mask : List Bool) : List Nat :=
  (List.range mask.length).filter (fun i => mask.getD i false)

/-! ### (a) sub-grid extraction -/

structure Topo where
  cfFaces : List (List Nat)
  cfSigns : List (List Int)
  fn : List (List Nat)

/-- `slice_sparse_matrix(mat, ind)`: the selected columns, in the order of `ind` -/
def subCols {α : Type} (m : List (List α)) (ind : List Nat) : List (List α) :=
  ind.map (fun i => m.getD i [])

/-- `unique_rows` of `np.unique(sub_mat.indices, return_inverse=True)` -/
def uniqueRows (cols : List (List Nat)) : List Nat := usort cols.flatten

/-- `rows_sub` of the same call: every stored row index replaced by its position in `unique_rows` -/
def renumber (u : List Nat) (cols : List (List Nat)) : List (List Nat) :=
  cols.map (fun col => col.map (fun r => u.idxOf r))

/-- `_extract_submatrix(mat, ind)` = (local columns, global row of every local row) -/
def extractSub (m : List (List Nat)) (ind : List Nat) : List (List Nat) × List Nat :=
  let cols := subCols m ind
  let u := uniqueRows cols
  (renumber u cols, u)

/-- `cell_faces.sum(axis=1)[lf]` of the local matrix -/
def rowSum (cfLoc : List (List Nat)) (sg : List (List Int)) (lf : Nat) : Int :=
  ((cfLoc.flatten.zip sg.flatten).filter (fun p => p.1 == lf)).foldl (fun a p => a + p.2) 0

/-- `np.any(np.abs(cell_faces.sum(axis=1)) > 1)` in `Grid.__init__` -/
def orientationBad (cfLoc : List (List Nat)) (sg : List (List Int)) (nf : Nat) : Bool :=
  (List.range nf).any (fun lf => decide (1 < (rowSum cfLoc sg lf).natAbs))

structure Sub where
  cells : List Nat
  faceMap : List Nat
  nodeMap : List Nat
  cfFaces : List (List Nat)
  cfSigns : List (List Int)
  fn : List (List Nat)

/-- `extract_subgrid(g, c, faces=False)` after the optional sorting of `c` -/
def extractCore (g : Topo) (c : List Nat) : Except Err Sub :=
  if c.any (fun i => decide (g.cfFaces.length ≤ i)) then .error .index else
  let cf := extractSub g.cfFaces c
  if cf.2.any (fun f => decide (g.fn.length ≤ f)) then .error .index else
  let fnn := extractSub g.fn cf.2
  let sg := subCols g.cfSigns c
  if orientationBad cf.1 sg cf.2.length then .error .value else
  .ok { cells := c, faceMap := cf.2, nodeMap := fnn.2, cfFaces := cf.1, cfSigns := sg, fn := fnn.1 }

/-- `extract_subgrid(g, c, sort, faces=False)` on index arrays -/
def extract (g : Topo) (c : List Nat) (sort : Bool) : Except Err Sub :=
  extractCore g (if sort then isort c else c)

/-- boolean-mask entry of `extract_subgrid` -/
def extractMask (g : Topo) (mask : List Bool) (sort : Bool) : Except Err Sub :=
  if mask.length ≠ g.cfFaces.length then .error .index else extract g (whereTrue mask) sort

/-- for every position: is it the first occurrence of its value (given the values seen before)? -/
def firstOccAux (seen : List Nat) : List Nat → List Bool
  | [] => []
  | x :: l => (!seen.contains x) :: firstOccAux (x :: seen) l

/-- column-shaped data vector: `first` at the first occurrence of every row index (over the whole
    flattened index array, as `np.unique(indices, return_index=True)` finds it), `other` elsewhere -/
def signCols (first other : Int) (seen : List Nat) : List (List Nat) → List (List Int)
  | [] => []
  | col :: rest =>
    (firstOccAux seen col).map (fun b => if b then first else other)
      :: signCols first other (col.reverse ++ seen) rest

/-- result of `extract_subgrid(g, f, faces=True)`: the lower-dimensional grid's topology -/
structure FaceSub where
  faces : List Nat
  nodeMap : List Nat
  cfFaces : List (List Nat)
  cfSigns : List (List Int)
  fn : List (List Nat)

/-- `_extract_cells_from_faces_2d`: faces of a 2-D grid become cells of a 1-D grid whose faces are nodes -/
def extractFaces2 (fn : List (List Nat)) (f : List Nat) : Except Err FaceSub :=
  if f.any (fun i => decide (fn.length ≤ i)) then .error .index else
  let cn := extractSub fn f
  let sg := signCols 1 (-1) [] cn.1
  if orientationBad cn.1 sg cn.2.length then .error .value else   -- a node shared by ≥ 4 of the faces
  .ok { faces := f, nodeMap := cn.2, cfFaces := cn.1, cfSigns := sg,
        fn := (List.range cn.2.length).map (fun i => [i]) }

/-- consecutive node pairs of a polygon (`next_node` wraps around at the end of every column) -/
def cyclicEdges (col : List Nat) : List (Nat × Nat) := col.zip (col.drop 1 ++ col.take 1)

/-- lexicographic key of an undirected edge (columns of `face_nodes_sorted`) -/
def edgeKey (m : Nat) (e : Nat × Nat) : Nat := min e.1 e.2 * m + max e.1 e.2

/-- `_extract_cells_from_faces_3d`: faces of a 3-D grid become cells of a 2-D grid whose faces are the
    distinct edges, ordered lexicographically by (smaller node, larger node), each keeping the orientation
    of its first occurrence; the first occurrence gets sign −1, later ones +1 -/
def extractFaces3 (fn : List (List Nat)) (f : List Nat) : Except Err FaceSub :=
  if f.any (fun i => decide (fn.length ≤ i)) then .error .index else
  let cn := extractSub fn f
  let m := cn.2.length + 1
  let ecols := cn.1.map cyclicEdges
  let es := ecols.flatten
  let keys := es.map (edgeKey m)
  let ukeys := usort keys
  let cf := ecols.map (fun col => col.map (fun e => ukeys.idxOf (edgeKey m e)))
  let sg := signCols (-1) 1 [] cf
  if orientationBad cf sg ukeys.length then .error .value else    -- an edge shared by ≥ 4 of the faces
  .ok { faces := f, nodeMap := cn.2, cfFaces := cf, cfSigns := sg,
        fn := ukeys.map (fun k => let e := es.getD (keys.idxOf k) (0, 0); [e.1, e.2]) }

/-- `_extract_cells_from_faces_1d`: exactly one face (a point); returns its nodes -/
def extractFaces1 (fn : List (List Nat)) (f : List Nat) : Except Err (List Nat) :=
  match f with
  | [i] => if fn.length ≤ i then .error .index else .ok (fn.getD i [])
  | _ => .error .assertion

/-- cells of every part: `np.argwhere(ind == i)` for `i in np.unique(ind)` -/
def partCells (ind : List Nat) : List (List Nat) :=
  (usort ind).map (fun i => (List.range ind.length).filter (fun c => ind.getD c 0 == i))

/-- `partition_grid(g, ind)` -/
def partitionGrid (g : Topo) (ind : List Nat) : List (Except Err Sub) :=
  (partCells ind).map (fun cs => extract g cs true)

/-! ### (b) `partition_structured` -/

/-- `np.arange(0, f, step)` for an integer-valued step ≥ 1 -/
def arange (f step : Nat) : List Nat := (List.range ((f + step - 1) / step)).map (· * step)

/-- fine indices where the coarse index increases (after trimming to `coarse` entries) -/
def incrInd (f c : Nat) : List Nat :=
  if c = 0 then [] else    -- numpy: step = inf, arange = [0], trimmed to the first 0 entries
  let a := arange f (f / c)
  if a.length > c then a.take c else a

/-- `loc_ind`: zeros with ones at `incr_ind` -/
def locInd (f c : Nat) : List Int :=
  (List.range f).map (fun i => if (incrInd f c).contains i then 1 else 0)

def cumsumFrom (acc : Int) : List Int → List Int
  | [] => []
  | x :: l => (acc + x) :: cumsumFrom (acc + x) l

/-- per-axis coarse index `np.cumsum(loc_ind) - 1` -/
def axisIdx (f c : Nat) : List Int := (cumsumFrom 0 (locInd f c)).map (· - 1)

/-- 2-D: `(xi + yi * coarse_dims[0]).ravel()` of `meshgrid(ind[0], ind[1])` : y outer, x inner -/
def combine2 (xi yi : List Int) (c0 : Nat) : List Int :=
  yi.flatMap (fun y => xi.map (fun x => x + y * c0))

/-- 3-D: after the two `swapaxes`, z is the outermost and x the innermost loop -/
def combine3 (xi yi zi : List Int) (c0 c1 : Nat) : List Int :=
  zi.flatMap (fun z => yi.flatMap (fun y => xi.map (fun x => x + y * c0 + z * ((c0 * c1 : Nat) : Int))))

/-- an axis with more coarse than fine cells has `fine_per_coarse = 0`; `np.arange(0, f, 0)` raises ValueError -/
def axisBad (f c : Nat) : Bool := decide (0 < c) && decide (f / c = 0)

/-- `partition_structured(g, coarse_dims=coarse)` with `g.cart_dims = fine` -/
def partitionStructured (fine coarse : List Nat) : Except Err (List Int) :=
  match fine, coarse with
  | [f0], [c0] =>
    if axisBad f0 c0 then .error .value else .ok (axisIdx f0 c0)
  | [f0, f1], [c0, c1] =>
    if axisBad f0 c0 || axisBad f1 c1 then .error .value else
    .ok (combine2 (axisIdx f0 c0) (axisIdx f1 c1) c0)
  | [f0, f1, f2], [c0, c1, c2] =>
    if axisBad f0 c0 || axisBad f1 c1 || axisBad f2 c2 then .error .value else
    .ok (combine3 (axisIdx f0 c0) (axisIdx f1 c1) (axisIdx f2 c2) c0 c1)
  | _, _ => .error .value

/-! ### (c) `overlap` -/

/-- entities (nodes or faces) of a set of cells: `cn * active_cells > 0` -/
def touched (ce : List (List Nat)) (cells : List Nat) : List Nat :=
  cells.flatMap (fun c => ce.getD c [])

/-- cells having at least one active entity: `cn.T * active_nodes > 0` -/
def hits (ce : List (List Nat)) (ents : List Nat) : List Nat :=
  (List.range ce.length).filter (fun c => (ce.getD c []).any (fun e => ents.contains e))

/-- one pass of the loop body; state = (active cells, active entities), both only ever grow -/
def layer (ce : List (List Nat)) (st : List Nat × List Nat) : List Nat × List Nat :=
  let ents := st.2 ++ touched ce st.1
  (st.1 ++ hits ce ents, ents)

def layers (ce : List (List Nat)) : Nat → List Nat × List Nat → List Nat × List Nat
  | 0, st => st
  | k + 1, st => layer ce (layers ce k st)

/-- `np.sort(np.argwhere(active_cells > 0).ravel())` after `k` layers started from `cells` -/
def overlapCells (ce : List (List Nat)) (cells : List Nat) (k : Nat) : List Nat :=
  (List.range ce.length).filter (fun c => (layers ce k (cells, [])).1.contains c)

/-- `overlap(g, cell_ind, num_layers, criterion)`; `ce` = cell→node or cell→face relation -/
def overlap (ce : List (List Nat)) (cells : List Nat) (k : Nat) : Except Err (List Nat) :=
  if cells.any (fun c => decide (ce.length ≤ c)) then .error .index else .ok (overlapCells ce cells k)

end PorepyVerif.C22
