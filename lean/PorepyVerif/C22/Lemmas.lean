/-
C22 — helper lemmas for the property theorems in Props.lean.
-/
import PorepyVerif.C22.Model

namespace PorepyVerif.C22

/-! ### sorting -/

theorem mem_insertU {x y : Nat} {l : List Nat} : y ∈ insertU x l ↔ y = x ∨ y ∈ l := by
  induction l with
  | nil => simp [insertU]
  | cons a l ih =>
    unfold insertU
    split
    · simp
    · split
      · subst_vars; simp
      · simp only [List.mem_cons, ih]
        constructor <;> intro h <;> rcases h with h | h | h <;> simp [h]

theorem mem_usort {y : Nat} {l : List Nat} : y ∈ usort l ↔ y ∈ l := by
  induction l with
  | nil => simp [usort]
  | cons a l ih => simp [usort, mem_insertU, ih]

theorem pairwise_insertU {x : Nat} {l : List Nat} (h : l.Pairwise (· < ·)) :
    (insertU x l).Pairwise (· < ·) := by
  induction l with
  | nil => simp [insertU]
  | cons a l ih =>
    have ha := (List.pairwise_cons.mp h).1
    have hl := List.Pairwise.of_cons h
    unfold insertU
    split
    · rename_i hxa
      refine List.Pairwise.cons ?_ h
      intro b hb
      rcases List.mem_cons.mp hb with rfl | hb
      · exact hxa
      · exact Nat.lt_trans hxa (ha b hb)
    · split
      · exact h
      · rename_i h1 h2
        refine List.Pairwise.cons ?_ (ih hl)
        intro b hb
        rcases mem_insertU.mp hb with rfl | hb
        · omega
        · exact ha b hb

theorem pairwise_usort (l : List Nat) : (usort l).Pairwise (· < ·) := by
  induction l with
  | nil => simp [usort]
  | cons a l ih => exact pairwise_insertU ih

theorem nodup_of_pairwise_lt {l : List Nat} (h : l.Pairwise (· < ·)) : l.Nodup :=
  List.Pairwise.imp (fun hab => Nat.ne_of_lt hab) h

theorem perm_insertS (x : Nat) (l : List Nat) : (insertS x l).Perm (x :: l) := by
  induction l with
  | nil => simp [insertS]
  | cons a l ih =>
    unfold insertS
    split
    · exact List.Perm.refl _
    · exact ((List.Perm.cons a ih).trans (List.Perm.swap x a l))

theorem perm_isort (l : List Nat) : (isort l).Perm l := by
  induction l with
  | nil => exact List.Perm.refl _
  | cons a l ih => exact (perm_insertS a (isort l)).trans (List.Perm.cons a ih)

theorem mem_insertS {x y : Nat} {l : List Nat} : y ∈ insertS x l ↔ y = x ∨ y ∈ l := by
  rw [(perm_insertS x l).mem_iff]; simp

theorem pairwise_insertS {x : Nat} {l : List Nat} (h : l.Pairwise (· ≤ ·)) :
    (insertS x l).Pairwise (· ≤ ·) := by
  induction l with
  | nil => simp [insertS]
  | cons a l ih =>
    have ha := (List.pairwise_cons.mp h).1
    have hl := List.Pairwise.of_cons h
    unfold insertS
    split
    · rename_i hxa
      refine List.Pairwise.cons ?_ h
      intro b hb
      rcases List.mem_cons.mp hb with rfl | hb
      · exact hxa
      · exact Nat.le_trans hxa (ha b hb)
    · rename_i h1
      refine List.Pairwise.cons ?_ (ih hl)
      intro b hb
      rcases mem_insertS.mp hb with rfl | hb
      · omega
      · exact ha b hb

theorem pairwise_isort (l : List Nat) : (isort l).Pairwise (· ≤ ·) := by
  induction l with
  | nil => simp [isort]
  | cons a l ih => exact pairwise_insertS ih

/-- sorting a sorted list changes nothing -/
theorem isort_of_sorted {l : List Nat} (h : l.Pairwise (· ≤ ·)) : isort l = l := by
  induction l with
  | nil => rfl
  | cons a l ih =>
    have ha := (List.pairwise_cons.mp h).1
    simp only [isort, ih (List.Pairwise.of_cons h)]
    cases l with
    | nil => rfl
    | cons b l => simp [insertS, ha b (List.mem_cons_self)]

/-! ### `_extract_submatrix` -/

theorem getD_idxOf {u : List Nat} {x : Nat} (h : x ∈ u) : u.getD (u.idxOf x) 0 = x := by
  have hlt : u.idxOf x < u.length := List.idxOf_lt_length_iff.mpr h
  simp [List.getD_eq_getElem?_getD, List.getElem?_eq_getElem hlt, List.getElem_idxOf hlt]

theorem renumber_back (u : List Nat) (cols : List (List Nat))
    (h : ∀ col ∈ cols, ∀ r ∈ col, r ∈ u) :
    (renumber u cols).map (fun col => col.map (fun j => u.getD j 0)) = cols := by
  unfold renumber
  rw [List.map_map]
  conv => rhs; rw [← List.map_id cols]
  apply List.map_congr_left
  intro col hcol
  simp only [Function.comp, List.map_map, id]
  conv => rhs; rw [← List.map_id col]
  apply List.map_congr_left
  intro r hr
  show u.getD (u.idxOf r) 0 = r
  exact getD_idxOf (h col hcol r hr)

theorem mem_uniqueRows {x : Nat} {cols : List (List Nat)} :
    x ∈ uniqueRows cols ↔ ∃ col ∈ cols, x ∈ col := by
  simp [uniqueRows, mem_usort, List.mem_flatten]

theorem mem_subCols {α : Type} {m : List (List α)} {ind : List Nat} {col : List α} :
    col ∈ subCols m ind ↔ ∃ i ∈ ind, m.getD i [] = col := by
  simp [subCols]

/-- specification of `_extract_submatrix` -/
theorem extractSub_spec (m : List (List Nat)) (ind : List Nat) :
    (extractSub m ind).2.Pairwise (· < ·) ∧
    (∀ x, x ∈ (extractSub m ind).2 ↔ ∃ i ∈ ind, x ∈ m.getD i []) ∧
    (extractSub m ind).1.map (fun col => col.map (fun j => (extractSub m ind).2.getD j 0))
      = ind.map (fun i => m.getD i []) ∧
    (∀ col ∈ (extractSub m ind).1, ∀ j ∈ col, j < (extractSub m ind).2.length) := by
  refine ⟨pairwise_usort _, ?_, ?_, ?_⟩
  · intro x
    show x ∈ uniqueRows (subCols m ind) ↔ _
    rw [mem_uniqueRows]
    constructor
    · rintro ⟨col, hcol, hx⟩
      obtain ⟨i, hi, rfl⟩ := mem_subCols.mp hcol
      exact ⟨i, hi, hx⟩
    · rintro ⟨i, hi, hx⟩
      exact ⟨_, mem_subCols.mpr ⟨i, hi, rfl⟩, hx⟩
  · have e1 : (extractSub m ind).1 = renumber (uniqueRows (subCols m ind)) (subCols m ind) := rfl
    have e2 : (extractSub m ind).2 = uniqueRows (subCols m ind) := rfl
    rw [e1, e2, renumber_back]
    · rfl
    · intro col hcol r hr
      exact mem_uniqueRows.mpr ⟨col, hcol, hr⟩
  · intro col hcol j hj
    change col ∈ renumber (uniqueRows (subCols m ind)) (subCols m ind) at hcol
    simp only [renumber, List.mem_map] at hcol
    obtain ⟨col0, hcol0, rfl⟩ := hcol
    obtain ⟨r, hr, rfl⟩ := List.mem_map.mp hj
    exact List.idxOf_lt_length_iff.mpr (mem_uniqueRows.mpr ⟨col0, hcol0, hr⟩)

/-! ### unfolding `extract` -/

theorem not_any_ge {l : List Nat} {n : Nat} (h : ¬ (l.any (fun i => decide (n ≤ i)) = true)) :
    ∀ i ∈ l, i < n := by
  intro i hi
  by_cases hlt : i < n
  · exact hlt
  · exact absurd (List.any_eq_true.mpr ⟨i, hi, by simp; omega⟩) h

theorem extractCore_ok {g : Topo} {c : List Nat} {r : Sub} (h : extractCore g c = .ok r) :
    r.cells = c ∧
    r.faceMap = (extractSub g.cfFaces c).2 ∧
    r.cfFaces = (extractSub g.cfFaces c).1 ∧
    r.nodeMap = (extractSub g.fn r.faceMap).2 ∧
    r.fn = (extractSub g.fn r.faceMap).1 ∧
    r.cfSigns = subCols g.cfSigns c ∧
    (∀ i ∈ c, i < g.cfFaces.length) ∧
    (∀ f ∈ r.faceMap, f < g.fn.length) ∧
    orientationBad r.cfFaces r.cfSigns r.faceMap.length = false := by
  unfold extractCore at h
  simp only at h
  by_cases h1 : (c.any (fun i => decide (g.cfFaces.length ≤ i))) = true
  · rw [if_pos h1] at h; cases h
  · rw [if_neg h1] at h
    by_cases h2 : ((extractSub g.cfFaces c).2.any (fun f => decide (g.fn.length ≤ f))) = true
    · rw [if_pos h2] at h; cases h
    · rw [if_neg h2] at h
      by_cases h3 : orientationBad (extractSub g.cfFaces c).1 (subCols g.cfSigns c)
          (extractSub g.cfFaces c).2.length = true
      · rw [if_pos h3] at h; cases h
      · rw [if_neg h3] at h
        injection h with h
        subst h
        refine ⟨rfl, rfl, rfl, rfl, rfl, rfl, not_any_ge h1, not_any_ge h2, ?_⟩
        simpa using h3

/-! ### indexing a `flatMap` with rows of equal length -/

theorem getD_flatMap_uniform {α β : Type} (g : α → List β) (n : Nat) (d : β) (dy : α) :
    ∀ (ys : List α), (∀ y ∈ ys, (g y).length = n) → ∀ (i j : Nat), i < n → j < ys.length →
      (ys.flatMap g).getD (i + n * j) d = (g (ys.getD j dy)).getD i d := by
  intro ys
  induction ys with
  | nil => intro _ i j _ hj; simp at hj
  | cons y ys ih =>
    intro hlen i j hi hj
    have hy : (g y).length = n := hlen y List.mem_cons_self
    simp only [List.flatMap_cons]
    cases j with
    | zero =>
      simp only [Nat.mul_zero, Nat.add_zero]
      rw [List.getD_eq_getElem?_getD, List.getD_eq_getElem?_getD, List.getD_eq_getElem?_getD,
        List.getElem?_append_left (by omega)]
      simp
    | succ j =>
      have hidx : i + n * (j + 1) = (g y).length + (i + n * j) := by
        rw [hy, Nat.mul_succ]; omega
      rw [hidx, List.getD_eq_getElem?_getD, List.getElem?_append_right (by omega)]
      simp only [Nat.add_sub_cancel_left]
      rw [← List.getD_eq_getElem?_getD, ih (fun y hy' => hlen y (List.mem_cons_of_mem _ hy')) i j hi
        (by simpa using hj)]
      simp

/-! ### `partition_grid` -/

theorem mem_partCells_flatten {ind : List Nat} {c : Nat} :
    c ∈ (partCells ind).flatten ↔ c < ind.length := by
  simp only [partCells, List.mem_flatten, List.mem_map]
  constructor
  · rintro ⟨l, ⟨i, _, rfl⟩, hc⟩
    exact List.mem_range.mp (List.mem_filter.mp hc).1
  · intro hc
    refine ⟨_, ⟨ind.getD c 0, ?_, rfl⟩, ?_⟩
    · rw [mem_usort, List.getD_eq_getElem?_getD, List.getElem?_eq_getElem hc]
      simp
    · simp [List.mem_filter, hc]

theorem nodup_partCells_flatten (ind : List Nat) : (partCells ind).flatten.Nodup := by
  unfold List.Nodup
  rw [List.pairwise_flatten]
  constructor
  · intro l hl
    simp only [partCells, List.mem_map] at hl
    obtain ⟨i, _, rfl⟩ := hl
    exact List.Pairwise.filter _ List.nodup_range
  · unfold partCells
    rw [List.pairwise_map]
    refine List.Pairwise.imp ?_ (pairwise_usort ind)
    intro i j hij x hx y hy hxy
    subst hxy
    have h1 := (List.mem_filter.mp hx).2
    have h2 := (List.mem_filter.mp hy).2
    simp at h1 h2
    omega

theorem partCells_sorted {ind : List Nat} {cs : List Nat} (h : cs ∈ partCells ind) :
    cs.Pairwise (· ≤ ·) := by
  simp only [partCells, List.mem_map] at h
  obtain ⟨i, _, rfl⟩ := h
  exact List.Pairwise.filter _ (List.Pairwise.imp (fun h => Nat.le_of_lt h) List.pairwise_lt_range)

/-! ### `partition_structured`: per-axis index -/

theorem arange_length_ge {f c : Nat} (hc : 1 ≤ c) (hcf : c ≤ f) :
    c ≤ (f + f / c - 1) / (f / c) := by
  have hs : 0 < f / c := Nat.div_pos hcf (by omega)
  rw [Nat.le_div_iff_mul_le hs]
  have := Nat.div_mul_le_self f c
  have h2 : c * (f / c) = f / c * c := Nat.mul_comm _ _
  omega

theorem incrInd_eq {f c : Nat} (hc : 1 ≤ c) (hcf : c ≤ f) :
    incrInd f c = (List.range c).map (· * (f / c)) := by
  have hge := arange_length_ge hc hcf
  unfold incrInd
  rw [if_neg (by omega)]
  simp only [arange, List.length_map, List.length_range]
  split
  · rw [← List.map_take, List.take_range, Nat.min_eq_left (by omega)]
  · have : (f + f / c - 1) / (f / c) = c := by omega
    rw [this]

theorem mem_incrInd {f c i : Nat} (hc : 1 ≤ c) (hcf : c ≤ f) :
    i ∈ incrInd f c ↔ ∃ k, k < c ∧ i = k * (f / c) := by
  rw [incrInd_eq hc hcf]
  simp only [List.mem_map, List.mem_range]
  constructor
  · rintro ⟨k, hk, rfl⟩; exact ⟨k, hk, rfl⟩
  · rintro ⟨k, hk, rfl⟩; exact ⟨k, hk, rfl⟩

/-- cumulative sums along `range' a n` of `g` are `h`, if `h` satisfies the recurrence -/
theorem cumsumFrom_range' (g h : Nat → Int) (hstep : ∀ i, h (i + 1) = h i + g (i + 1)) :
    ∀ (n a : Nat) (acc : Int), acc + g a = h a →
      cumsumFrom acc ((List.range' a n).map g) = (List.range' a n).map h := by
  intro n
  induction n with
  | zero => intro a acc _; rfl
  | succ n ih =>
    intro a acc h0
    simp only [List.range'_succ, List.map_cons, cumsumFrom]
    rw [h0, ih (a + 1) (h a) (by rw [hstep])]

/-- the closed form of the coarse index along one axis -/
def axisSpec (f c i : Nat) : Nat := min (i / (f / c)) (c - 1)

theorem axisSpec_step {f c : Nat} (hc : 1 ≤ c) (hcf : c ≤ f) (i : Nat) :
    ((axisSpec f c (i + 1) : Nat) : Int) + 1 =
      ((axisSpec f c i : Nat) : Int) + 1 + (if (incrInd f c).contains (i + 1) then 1 else 0) := by
  have hs : 0 < f / c := Nat.div_pos hcf (by omega)
  unfold axisSpec
  rw [Nat.succ_div]
  by_cases hd : f / c ∣ i + 1
  · rw [if_pos hd]
    obtain ⟨k, hk⟩ := hd
    have hk' : i + 1 = k * (f / c) := by rw [hk, Nat.mul_comm]
    have hdiv : (i + 1) / (f / c) = k := by rw [hk', Nat.mul_div_cancel _ hs]
    have hsucc : i / (f / c) + 1 = k := by
      have := @Nat.succ_div i (f / c)
      rw [if_pos ⟨k, hk⟩, hdiv] at this
      omega
    by_cases hkc : k < c
    · have hmem : (incrInd f c).contains (i + 1) = true :=
        List.contains_iff_mem.mpr ((mem_incrInd hc hcf).mpr ⟨k, hkc, hk'⟩)
      rw [hmem]
      simp only [if_true]
      omega
    · have hmem : (incrInd f c).contains (i + 1) = false := by
        apply Bool.eq_false_iff.mpr
        intro hm
        obtain ⟨k', hk'c, hk'e⟩ := (mem_incrInd hc hcf).mp (List.contains_iff_mem.mp hm)
        have : k' = k := by
          have := Nat.eq_of_mul_eq_mul_right hs (hk'e.symm.trans hk')
          exact this
        omega
      rw [hmem]
      simp only [Bool.false_eq_true, if_false]
      omega
  · rw [if_neg hd]
    have hmem : (incrInd f c).contains (i + 1) = false := by
      apply Bool.eq_false_iff.mpr
      intro hm
      obtain ⟨k', _, hk'e⟩ := (mem_incrInd hc hcf).mp (List.contains_iff_mem.mp hm)
      exact hd ⟨k', by rw [hk'e, Nat.mul_comm]⟩
    rw [hmem]
    simp

theorem axisIdx_closed {f c : Nat} (hc : 1 ≤ c) (hcf : c ≤ f) :
    axisIdx f c = (List.range f).map (fun i => ((axisSpec f c i : Nat) : Int)) := by
  have hs : 0 < f / c := Nat.div_pos hcf (by omega)
  unfold axisIdx locInd
  rw [List.range_eq_range']
  rw [cumsumFrom_range' (fun i => if (incrInd f c).contains i then 1 else 0)
        (fun i => ((axisSpec f c i : Nat) : Int) + 1) (axisSpec_step hc hcf) f 0 0]
  · rw [List.map_map]
    apply List.map_congr_left
    intro i _
    simp
  · have hmem : 0 ∈ incrInd f c := (mem_incrInd hc hcf).mpr ⟨0, by omega, by simp⟩
    simp [hmem, axisSpec]



theorem axisSpec_lt {f c : Nat} (hc : 1 ≤ c) (i : Nat) : axisSpec f c i < c := by
  unfold axisSpec; omega

theorem axisSpec_mono {f c i j : Nat} (h : i ≤ j) : axisSpec f c i ≤ axisSpec f c j := by
  unfold axisSpec
  have := Nat.div_le_div_right (c := f / c) h
  omega

theorem axisSpec_step_le {f c : Nat} (i : Nat) : axisSpec f c (i + 1) ≤ axisSpec f c i + 1 := by
  unfold axisSpec
  rw [Nat.succ_div]
  split <;> omega

theorem axisSpec_onto {f c k : Nat} (hc : 1 ≤ c) (hcf : c ≤ f) (hk : k < c) :
    k * (f / c) < f ∧ axisSpec f c (k * (f / c)) = k := by
  have hs : 0 < f / c := Nat.div_pos hcf (by omega)
  constructor
  · have h1 : (k + 1) * (f / c) ≤ c * (f / c) := Nat.mul_le_mul_right _ (by omega)
    have h2 : c * (f / c) ≤ f := by rw [Nat.mul_comm]; exact Nat.div_mul_le_self f c
    have h3 : (k + 1) * (f / c) = k * (f / c) + f / c := Nat.succ_mul _ _
    omega
  · unfold axisSpec
    rw [Nat.mul_div_cancel _ hs]
    omega

theorem mem_axisIdx {f c : Nat} (hc : 1 ≤ c) (hcf : c ≤ f) (x : Int) :
    x ∈ axisIdx f c ↔ ∃ i, i < f ∧ x = ((axisSpec f c i : Nat) : Int) := by
  rw [axisIdx_closed hc hcf]
  simp only [List.mem_map, List.mem_range]
  constructor
  · rintro ⟨i, hi, rfl⟩; exact ⟨i, hi, rfl⟩
  · rintro ⟨i, hi, rfl⟩; exact ⟨i, hi, rfl⟩

theorem axisIdx_range {f c : Nat} (hc : 1 ≤ c) (hcf : c ≤ f) {x : Int} (hx : x ∈ axisIdx f c) :
    0 ≤ x ∧ x < c := by
  obtain ⟨i, _, rfl⟩ := (mem_axisIdx hc hcf x).mp hx
  have := axisSpec_lt (f := f) hc i
  omega

theorem axisIdx_onto {f c k : Nat} (hc : 1 ≤ c) (hcf : c ≤ f) (hk : k < c) :
    ((k : Nat) : Int) ∈ axisIdx f c := by
  obtain ⟨h1, h2⟩ := axisSpec_onto hc hcf hk
  exact (mem_axisIdx hc hcf _).mpr ⟨_, h1, by rw [h2]⟩

theorem axisIdx_length (f c : Nat) : (axisIdx f c).length = f := by
  have hcs : ∀ (l : List Int) (acc : Int), (cumsumFrom acc l).length = l.length := by
    intro l
    induction l with
    | nil => intro _; rfl
    | cons a l ih => intro acc; simp [cumsumFrom, ih]
  simp [axisIdx, locInd, hcs]

/-! ### combination over the axes -/

theorem mem_combine2 {xi yi : List Int} {c0 : Nat} {p : Int} :
    p ∈ combine2 xi yi c0 ↔ ∃ y ∈ yi, ∃ x ∈ xi, p = x + y * c0 := by
  simp only [combine2, List.mem_flatMap, List.mem_map]
  constructor
  · rintro ⟨y, hy, x, hx, rfl⟩; exact ⟨y, hy, x, hx, rfl⟩
  · rintro ⟨y, hy, x, hx, rfl⟩; exact ⟨y, hy, x, hx, rfl⟩

theorem mem_combine3 {xi yi zi : List Int} {c0 c1 : Nat} {p : Int} :
    p ∈ combine3 xi yi zi c0 c1 ↔
      ∃ z ∈ zi, ∃ y ∈ yi, ∃ x ∈ xi, p = x + y * c0 + z * ((c0 * c1 : Nat) : Int) := by
  simp only [combine3, List.mem_flatMap, List.mem_map]
  constructor
  · rintro ⟨z, hz, y, hy, x, hx, rfl⟩; exact ⟨z, hz, y, hy, x, hx, rfl⟩
  · rintro ⟨z, hz, y, hy, x, hx, rfl⟩; exact ⟨z, hz, y, hy, x, hx, rfl⟩

/-- mixed-radix bound: digits `x < a`, `y < b` give `x + y·a < a·b` -/
theorem radix2 {a b : Nat} {x y : Int} (hx0 : 0 ≤ x) (hx : x < a) (hy0 : 0 ≤ y) (hy : y < b) :
    0 ≤ x + y * a ∧ x + y * a < ((a * b : Nat) : Int) := by
  have h1 : 0 ≤ y * (a : Int) := Int.mul_nonneg hy0 (by omega)
  have h2 : (y + 1) * (a : Int) ≤ (b : Int) * a := Int.mul_le_mul_of_nonneg_right (by omega) (by omega)
  have h3 : (y + 1) * (a : Int) = y * a + a := by rw [Int.add_mul, Int.one_mul]
  have h4 : ((a * b : Nat) : Int) = (b : Int) * a := by rw [Int.natCast_mul, Int.mul_comm]
  omega

/-! ### `overlap` -/

theorem mem_touched {ce : List (List Nat)} {cells : List Nat} {e : Nat} :
    e ∈ touched ce cells ↔ ∃ c ∈ cells, e ∈ ce.getD c [] := by
  simp [touched, List.mem_flatMap]

theorem mem_hits {ce : List (List Nat)} {ents : List Nat} {c : Nat} :
    c ∈ hits ce ents ↔ c < ce.length ∧ ∃ e ∈ ce.getD c [], e ∈ ents := by
  simp only [hits, List.mem_filter, List.mem_range, List.any_eq_true, List.contains_iff_mem]

/-- state invariant: every active entity belongs to an active cell -/
def OvInv (ce : List (List Nat)) (st : List Nat × List Nat) : Prop :=
  ∀ e ∈ st.2, ∃ c ∈ st.1, e ∈ ce.getD c []

theorem ovInv_layer {ce : List (List Nat)} {st : List Nat × List Nat} (h : OvInv ce st) :
    OvInv ce (layer ce st) := by
  intro e he
  simp only [layer, List.mem_append] at he ⊢
  rcases he with he | he
  · obtain ⟨c, hc, hec⟩ := h e he
    exact ⟨c, Or.inl hc, hec⟩
  · obtain ⟨c, hc, hec⟩ := mem_touched.mp he
    exact ⟨c, Or.inl hc, hec⟩

theorem ovInv_layers (ce : List (List Nat)) (cells : List Nat) (k : Nat) :
    OvInv ce (layers ce k (cells, [])) := by
  induction k with
  | zero => intro e he; simp [layers] at he
  | succ k ih => exact ovInv_layer ih

/-- one pass adds exactly the cells sharing an entity with an active cell -/
theorem mem_layer {ce : List (List Nat)} {st : List Nat × List Nat} (h : OvInv ce st) {c : Nat} :
    c ∈ (layer ce st).1 ↔
      c ∈ st.1 ∨ (c < ce.length ∧ ∃ c0 ∈ st.1, ∃ e, e ∈ ce.getD c0 [] ∧ e ∈ ce.getD c []) := by
  simp only [layer, List.mem_append, mem_hits, mem_touched]
  constructor
  · rintro (hc | ⟨hlt, e, hec, he | ⟨c0, hc0, hec0⟩⟩)
    · exact Or.inl hc
    · obtain ⟨c0, hc0, hec0⟩ := h e he
      exact Or.inr ⟨hlt, c0, hc0, e, hec0, hec⟩
    · exact Or.inr ⟨hlt, c0, hc0, e, hec0, hec⟩
  · rintro (hc | ⟨hlt, c0, hc0, e, hec0, hec⟩)
    · exact Or.inl hc
    · exact Or.inr ⟨hlt, e, hec, Or.inr ⟨c0, hc0, hec0⟩⟩

theorem layers_lt {ce : List (List Nat)} {cells : List Nat} (hcells : ∀ c ∈ cells, c < ce.length)
    (k : Nat) : ∀ c ∈ (layers ce k (cells, [])).1, c < ce.length := by
  induction k with
  | zero => exact hcells
  | succ k ih =>
    intro c hc
    rcases (mem_layer (ovInv_layers ce cells k)).mp hc with h | ⟨h, _⟩
    · exact ih c h
    · exact h

theorem mem_overlapCells {ce : List (List Nat)} {cells : List Nat} {k c : Nat} :
    c ∈ overlapCells ce cells k ↔ c < ce.length ∧ c ∈ (layers ce k (cells, [])).1 := by
  simp [overlapCells, List.mem_filter]

theorem mem_overlapCells' {ce : List (List Nat)} {cells : List Nat}
    (hcells : ∀ c ∈ cells, c < ce.length) {k c : Nat} :
    c ∈ overlapCells ce cells k ↔ c ∈ (layers ce k (cells, [])).1 := by
  rw [mem_overlapCells]
  exact ⟨fun h => h.2, fun h => ⟨layers_lt hcells k c h, h⟩⟩

theorem overlapCells_sorted (ce : List (List Nat)) (cells : List Nat) (k : Nat) :
    (overlapCells ce cells k).Pairwise (· < ·) :=
  List.Pairwise.filter _ List.pairwise_lt_range

theorem overlap_ok {ce : List (List Nat)} {cells : List Nat} (hcells : ∀ c ∈ cells, c < ce.length)
    (k : Nat) : overlap ce cells k = .ok (overlapCells ce cells k) := by
  unfold overlap
  rw [if_neg]
  intro h
  obtain ⟨c, hc, hdec⟩ := List.any_eq_true.mp h
  have := hcells c hc
  simp at hdec
  omega

/-! ### `partition_structured`: unfolding and arithmetic -/

theorem axisBad_false {f c : Nat} (hc : 1 ≤ c) (hcf : c ≤ f) : axisBad f c = false := by
  have : 0 < f / c := Nat.div_pos hcf (by omega)
  simp [axisBad]; omega

theorem ps1 {f0 c0 : Nat} (h0 : 1 ≤ c0 ∧ c0 ≤ f0) :
    partitionStructured [f0] [c0] = .ok (axisIdx f0 c0) := by
  simp [partitionStructured, axisBad_false h0.1 h0.2]

theorem ps2 {f0 f1 c0 c1 : Nat} (h0 : 1 ≤ c0 ∧ c0 ≤ f0) (h1 : 1 ≤ c1 ∧ c1 ≤ f1) :
    partitionStructured [f0, f1] [c0, c1] = .ok (combine2 (axisIdx f0 c0) (axisIdx f1 c1) c0) := by
  simp [partitionStructured, axisBad_false h0.1 h0.2, axisBad_false h1.1 h1.2]

theorem ps3 {f0 f1 f2 c0 c1 c2 : Nat} (h0 : 1 ≤ c0 ∧ c0 ≤ f0) (h1 : 1 ≤ c1 ∧ c1 ≤ f1)
    (h2 : 1 ≤ c2 ∧ c2 ≤ f2) :
    partitionStructured [f0, f1, f2] [c0, c1, c2]
      = .ok (combine3 (axisIdx f0 c0) (axisIdx f1 c1) (axisIdx f2 c2) c0 c1) := by
  simp [partitionStructured, axisBad_false h0.1 h0.2, axisBad_false h1.1 h1.2, axisBad_false h2.1 h2.2]

/-- `partition_structured` answers only for 1, 2 or 3 axes -/
theorem ps_cases {fine coarse : List Nat} {p : List Int} (h : partitionStructured fine coarse = .ok p) :
    (∃ f0 c0, fine = [f0] ∧ coarse = [c0]) ∨
    (∃ f0 f1 c0 c1, fine = [f0, f1] ∧ coarse = [c0, c1]) ∨
    (∃ f0 f1 f2 c0 c1 c2, fine = [f0, f1, f2] ∧ coarse = [c0, c1, c2]) := by
  unfold partitionStructured at h
  split at h
  · exact Or.inl ⟨_, _, rfl, rfl⟩
  · exact Or.inr (Or.inl ⟨_, _, _, _, rfl, rfl⟩)
  · exact Or.inr (Or.inr ⟨_, _, _, _, _, _, rfl, rfl⟩)
  · cases h

theorem getD_map_range {β : Type} (g : Nat → β) (d : β) {n i : Nat} (hi : i < n) :
    ((List.range n).map g).getD i d = g i := by
  simp [List.getD_eq_getElem?_getD, hi]

theorem axisIdx_getD {f c i : Nat} (hc : 1 ≤ c) (hcf : c ≤ f) (hi : i < f) (d : Int) :
    (axisIdx f c).getD i d = ((axisSpec f c i : Nat) : Int) := by
  rw [axisIdx_closed hc hcf, getD_map_range _ _ hi]

/-- every number below `a·b` has two mixed-radix digits -/
theorem digits2 {a b q : Nat} (hq : q < a * b) : q % a < a ∧ q / a < b ∧ q = q % a + q / a * a := by
  have ha : 0 < a := by
    rcases Nat.eq_zero_or_pos a with h | h
    · subst h; simp at hq
    · exact h
  refine ⟨Nat.mod_lt _ ha, (Nat.div_lt_iff_lt_mul ha).mpr (by rw [Nat.mul_comm]; exact hq), ?_⟩
  have := Nat.mod_add_div q a
  rw [Nat.mul_comm] at this
  omega

theorem getD_map' {α β : Type} (g : α → β) (l : List α) {i : Nat} (hi : i < l.length) (d : β) (d' : α) :
    (l.map g).getD i d = g (l.getD i d') := by
  simp [List.getD_eq_getElem?_getD, List.getElem?_eq_getElem hi]

theorem length_pairs {α β : Type} (zs : List α) (ys : List β) :
    (zs.flatMap (fun z => ys.map (fun y => (z, y)))).length = ys.length * zs.length := by
  induction zs with
  | nil => simp
  | cons z zs ih => simp only [List.flatMap_cons, List.length_append, List.length_map, ih, List.length_cons,
      Nat.mul_succ]; omega

theorem length_flatMap_const {α β : Type} (F : α → List β) (n : Nat) (zs : List α)
    (h : ∀ z ∈ zs, (F z).length = n) : (zs.flatMap F).length = n * zs.length := by
  induction zs with
  | nil => simp
  | cons z zs ih =>
    simp only [List.flatMap_cons, List.length_append, List.length_cons, Nat.mul_succ,
      h z List.mem_cons_self, ih (fun z hz => h z (List.mem_cons_of_mem _ hz))]
    omega

theorem axisSpec_zero (f c : Nat) : axisSpec f c 0 = 0 := by simp [axisSpec]

theorem axisSpec_last {f c : Nat} (hc : 1 ≤ c) (hcf : c ≤ f) : axisSpec f c (f - 1) = c - 1 := by
  have hs : 0 < f / c := Nat.div_pos hcf (by omega)
  have h1 : c - 1 ≤ (f - 1) / (f / c) := by
    rw [Nat.le_div_iff_mul_le hs]
    have h2 : c * (f / c) ≤ f := by rw [Nat.mul_comm]; exact Nat.div_mul_le_self f c
    have h3 : c * (f / c) = (c - 1) * (f / c) + f / c := by
      have h4 : ((c - 1) + 1) * (f / c) = (c - 1) * (f / c) + f / c := Nat.succ_mul _ _
      have h5 : (c - 1) + 1 = c := by omega
      rw [h5] at h4
      exact h4
    omega
  unfold axisSpec
  omega

/-! ### `determine_coarse_dimensions` -/

def DimOk (d : Dim) : Prop := 1 ≤ d.opt ∧ d.opt ≤ d.fine

/-- what the theorems need from the root oracle: `⌊s⌋ ≤ ⌈s⌉` and `1 ≤ ⌈s⌉` (true of any `s > 0`) -/
def RootOk (root : Nat → Nat → Nat → Nat × Nat) : Prop :=
  ∀ k p q, 1 ≤ p → (root k p q).1 ≤ (root k p q).2 ∧ 1 ≤ (root k p q).2

def OkZip (ds : List Dim) (os : List Nat) : Prop :=
  os.length = ds.length ∧ ∀ q ∈ ds.zip os, 1 ≤ q.2 ∧ q.2 ≤ q.1.fine

theorem hitUpdate_ok {hi : Nat} {d : Dim} (h : DimOk d) (hhi : 1 ≤ hi) :
    DimOk (hitUpdate hi d) ∧ (hitUpdate hi d).fine = d.fine := by
  unfold hitUpdate
  split
  · refine ⟨?_, rfl⟩
    unfold DimOk at *
    simp only
    omega
  · exact ⟨h, rfl⟩

theorem hitUpdate_unfound {hi : Nat} {d : Dim} (h : (hitUpdate hi d).found = false) :
    hi < (hitUpdate hi d).fine := by
  unfold hitUpdate at h ⊢
  split
  · rename_i hh; simp [hh] at h
  · rename_i hh
    rw [if_neg hh] at h
    simp only [isHit, h, Bool.not_false, Bool.and_true, decide_eq_true_eq] at hh
    omega

theorem okZip_self {ds : List Dim} (h : ∀ d ∈ ds, DimOk d) : OkZip ds (ds.map (·.opt)) := by
  refine ⟨by simp, ?_⟩
  intro q hq
  rw [List.zip_map_right] at hq
  obtain ⟨⟨a, b⟩, hab, rfl⟩ := List.mem_map.mp hq
  have hab' := List.of_mem_zip hab
  have : a = b := by
    have := List.mem_iff_getElem.mp hab
    obtain ⟨i, hi, he⟩ := this
    simp at he
    rw [← he.1, ← he.2]
  subst this
  exact h a hab'.1

theorem okZip_map_fine (g : Dim → Dim) (hg : ∀ d, (g d).fine = d.fine) :
    ∀ (ds : List Dim) (c : List Nat), OkZip (ds.map g) c → OkZip ds c := by
  intro ds
  induction ds with
  | nil => intro c h; exact ⟨by simpa using h.1, by intro q hq; simp at hq⟩
  | cons d ds ih =>
    intro c ⟨hl, hz⟩
    cases c with
    | nil => simp at hl
    | cons o c =>
      have hl' : c.length = (ds.map g).length := by simpa using hl
      obtain ⟨_, ihz⟩ := ih c ⟨hl', fun q hq => hz q (by simp only [List.map_cons, List.zip_cons_cons]; exact List.mem_cons_of_mem _ hq)⟩
      refine ⟨by simpa using hl, ?_⟩
      intro q hq
      simp only [List.zip_cons_cons, List.mem_cons] at hq
      rcases hq with rfl | hq
      · have := hz (g d, o) (by simp)
        rw [hg] at this
        exact this
      · exact ihz q hq

theorem pickD_ok (lo hi : Nat) (hlh : lo ≤ hi) (hhi : 1 ≤ hi) :
    ∀ (ds : List Dim) (bits : List Bool),
      (∀ d ∈ ds, DimOk d ∧ (d.found = false → hi < d.fine)) → bits.length = ds.length →
      OkZip ds (pickD lo hi ds bits) := by
  intro ds
  induction ds with
  | nil => intro bits _ _; exact ⟨by cases bits <;> simp [pickD], by intro q hq; simp at hq⟩
  | cons d ds ih =>
    intro bits hd hl
    cases bits with
    | nil => simp at hl
    | cons b bs =>
      have hl' : bs.length = ds.length := by simpa using hl
      obtain ⟨ihl, ihz⟩ := ih bs (fun d' hd' => hd d' (List.mem_cons_of_mem _ hd')) hl'
      obtain ⟨hdo, hdf⟩ := hd d List.mem_cons_self
      refine ⟨by simp [pickD, ihl], ?_⟩
      intro q hq
      simp only [pickD, List.zip_cons_cons, List.mem_cons] at hq
      rcases hq with rfl | hq
      · simp only
        unfold DimOk at hdo
        cases hf : d.found with
        | true => simp; omega
        | false =>
          have := hdf hf
          cases b <;> simp <;> omega
      · exact ihz q hq

theorem perms_length : ∀ (n : Nat) (bits : List Bool), bits ∈ perms n → bits.length = n := by
  intro n
  induction n with
  | zero => intro bits h; simp [perms] at h; simp [h]
  | succ n ih =>
    intro bits h
    simp only [perms, List.mem_flatMap, List.mem_cons, List.not_mem_nil, or_false] at h
    obtain ⟨rest, hr, rfl | rfl⟩ := h <;> simp [ih rest hr]

theorem searchPerms_mem (P : List Nat → Prop) (target : Int) :
    ∀ (cands : List (List Nat)) (dist : Int) (opt : List Nat),
      P opt → (∀ s ∈ cands, P s) → P (searchPerms target cands dist opt) := by
  intro cands
  induction cands with
  | nil => intro _ opt h _; exact h
  | cons s rest ih =>
    intro dist opt hopt hc
    unfold searchPerms
    split
    · exact ih _ _ (hc s List.mem_cons_self) (fun s' hs' => hc s' (List.mem_cons_of_mem _ hs'))
    · exact ih _ _ hopt (fun s' hs' => hc s' (List.mem_cons_of_mem _ hs'))

/-- loop invariant ⇒ any answer of the loop is, axis by axis, within `[1, fine]` -/
theorem dcdLoop_ok (root : Nat → Nat → Nat → Nat × Nat) (hroot : RootOk root) (target nd fineProd : Nat)
    (ht : 1 ≤ target) :
    ∀ (fuel it : Nat) (dims : List Dim) (c : List Nat), dims.length = nd → (∀ d ∈ dims, DimOk d) →
      dcdLoop root target nd fineProd fuel it dims = .ok c → OkZip dims c := by
  intro fuel
  induction fuel with
  | zero => intro it dims c _ _ h; simp [dcdLoop] at h
  | succ fuel ih =>
    intro it dims c hlen hok h
    unfold dcdLoop at h
    split at h
    · split at h
      · cases h
      · injection h with h; subst h; exact okZip_self hok
    · simp only at h
      obtain ⟨hr1, hr2⟩ := hroot (dims.countP (fun d => !d.found)) target (prodL (dims.map (·.opt))) ht
      have hok' : ∀ d ∈ dims.map (hitUpdate (root (dims.countP (fun d => !d.found)) target
          (prodL (dims.map (·.opt)))).2), DimOk d := by
        intro d hd
        obtain ⟨d0, hd0, rfl⟩ := List.mem_map.mp hd
        exact (hitUpdate_ok (hok d0 hd0) hr2).1
      have transport : ∀ (hi : Nat) (c : List Nat), OkZip (dims.map (hitUpdate hi)) c → OkZip dims c :=
        fun hi c => okZip_map_fine (hitUpdate hi) (by intro d; unfold hitUpdate; split <;> rfl) dims c
      split at h
      · exact transport _ c (ih (it + 1) _ c (by simpa using hlen) hok' h)
      · split at h
        · cases h
        · injection h with h
          subst h
          apply transport
          apply searchPerms_mem (OkZip _)
          · exact okZip_self hok'
          · intro s hs
            obtain ⟨bits, hb, rfl⟩ := List.mem_map.mp hs
            apply pickD_ok _ _ hr1 hr2
            · intro d hd
              refine ⟨hok' d hd, ?_⟩
              intro hf
              obtain ⟨d0, _, rfl⟩ := List.mem_map.mp hd
              exact hitUpdate_unfound hf
            · rw [perms_length nd bits hb]; simpa using hlen.symm

/-! #### the exact integer root -/

theorem rootFloorAux_spec (k p q : Nat) : ∀ n, rootFloorAux k p q n ≤ n ∧
    (rootFloorAux k p q n = 0 ∨ rootFloorAux k p q n ^ k * q ≤ p) ∧
    (∀ m, rootFloorAux k p q n < m → m ≤ n → p < m ^ k * q) := by
  intro n
  induction n with
  | zero => exact ⟨Nat.le_refl _, Or.inl rfl, by intro m h1 h2; simp [rootFloorAux] at h1; omega⟩
  | succ n ih =>
    unfold rootFloorAux
    split
    · rename_i h
      exact ⟨Nat.le_refl _, Or.inr h, by intro m h1 h2; omega⟩
    · rename_i h
      obtain ⟨i1, i2, i3⟩ := ih
      refine ⟨by omega, i2, ?_⟩
      intro m h1 h2
      by_cases hm : m = n + 1
      · subst hm; omega
      · exact i3 m h1 (by omega)

/-- characterisation of the integer root: `⌊s⌋^k·q ≤ p < (⌊s⌋+1)^k·q` for `k, q ≥ 1` -/
theorem rootFloor_spec {k p q : Nat} (hk : 1 ≤ k) (hq : 1 ≤ q) :
    rootFloor k p q ^ k * q ≤ p ∧ p < (rootFloor k p q + 1) ^ k * q := by
  obtain ⟨h1, h2, h3⟩ := rootFloorAux_spec k p q p
  unfold rootFloor
  constructor
  · rcases h2 with h | h
    · rw [h, Nat.zero_pow (by omega)]; simp
    · exact h
  · by_cases hle : rootFloorAux k p q p + 1 ≤ p
    · exact h3 _ (by omega) hle
    · have heq : rootFloorAux k p q p = p := by omega
      rw [heq]
      have e1 : p + 1 ≤ (p + 1) ^ k := by
        calc p + 1 = (p + 1) ^ 1 := (Nat.pow_one _).symm
          _ ≤ (p + 1) ^ k := Nat.pow_le_pow_right (by omega) hk
      have e2 : (p + 1) ^ k * 1 ≤ (p + 1) ^ k * q := Nat.mul_le_mul_left _ hq
      omega

theorem rootCeil_spec {k p q : Nat} (hk : 1 ≤ k) (hq : 1 ≤ q) (hp : 1 ≤ p) :
    p ≤ rootCeil k p q ^ k * q ∧ (rootCeil k p q - 1) ^ k * q < p ∧ 1 ≤ rootCeil k p q := by
  obtain ⟨h1, h2⟩ := rootFloor_spec (p := p) hk hq
  unfold rootCeil
  split
  · rename_i he
    have hpos : 1 ≤ rootFloor k p q := by
      rcases Nat.eq_zero_or_pos (rootFloor k p q) with h0 | h0
      · rw [h0, Nat.zero_pow (by omega)] at he; omega
      · exact h0
    refine ⟨by omega, ?_, hpos⟩
    have hlt : rootFloor k p q - 1 < rootFloor k p q := by omega
    have := Nat.pow_lt_pow_left hlt (show k ≠ 0 by omega)
    have := Nat.mul_lt_mul_of_pos_right this (show 0 < q by omega)
    omega
  · rename_i hne
    refine ⟨by omega, ?_, by omega⟩
    simp only [Nat.add_sub_cancel]
    omega

theorem exactRoot_ok : RootOk exactRoot := by
  intro k p q hp
  simp only [exactRoot, rootCeil]
  split
  · rename_i he
    refine ⟨Nat.le_refl _, ?_⟩
    rcases Nat.eq_zero_or_pos (rootFloor k p q) with h0 | h0
    · -- ⌊s⌋ = 0 with 0^k·q = p ≥ 1 forces k = 0, but then ⌊s⌋ = p ≥ 1
      exfalso
      rw [h0] at he
      cases k with
      | zero =>
        obtain ⟨_, _, h3⟩ := rootFloorAux_spec 0 p q p
        have := h3 p (by unfold rootFloor at h0; omega) (Nat.le_refl _)
        simp at he this
        omega
      | succ k => simp at he; omega
    · exact h0
  · omega

/-! #### the loop never reaches the "bug somewhere" error -/

theorem isHit_unfound {hi : Nat} {d : Dim} (h : isHit hi d = true) : d.found = false := by
  unfold isHit at h
  cases hf : d.found <;> simp [hf] at h ⊢

theorem countP_hitUpdate (hi : Nat) : ∀ (ds : List Dim),
    ds.countP (·.found) ≤ (ds.map (hitUpdate hi)).countP (·.found) ∧
    ((∃ d ∈ ds, isHit hi d = true) →
      ds.countP (·.found) + 1 ≤ (ds.map (hitUpdate hi)).countP (·.found)) := by
  intro ds
  induction ds with
  | nil => exact ⟨Nat.le_refl _, by rintro ⟨d, hd, _⟩; simp at hd⟩
  | cons d ds ih =>
    obtain ⟨ih1, ih2⟩ := ih
    simp only [List.map_cons, List.countP_cons]
    by_cases hh : isHit hi d = true
    · have hf := isHit_unfound hh
      have hu : (hitUpdate hi d).found = true := by unfold hitUpdate; rw [if_pos hh]
      simp only [hf, hu]
      refine ⟨?_, fun _ => ?_⟩ <;> simp only [Bool.false_eq_true, ↓reduceIte] <;> omega
    · have hu : hitUpdate hi d = d := by unfold hitUpdate; rw [if_neg hh]
      rw [hu]
      refine ⟨by omega, ?_⟩
      rintro ⟨d', hd', hh'⟩
      rcases List.mem_cons.mp hd' with rfl | hd'
      · exact absurd hh' hh
      · have := ih2 ⟨d', hd', hh'⟩
        omega

theorem dcdLoop_noerr (root : Nat → Nat → Nat → Nat × Nat) (target nd fineProd : Nat) :
    ∀ (fuel it : Nat) (dims : List Dim), dims.length = nd → it ≤ dims.countP (·.found) →
      nd + 2 ≤ fuel + dims.countP (·.found) →
      ∃ c, dcdLoop root target nd fineProd fuel it dims = .ok c := by
  intro fuel
  induction fuel with
  | zero =>
    intro it dims hlen _ hf
    have := List.countP_le_length (p := fun d : Dim => d.found) (l := dims)
    omega
  | succ fuel ih =>
    intro it dims hlen hit hf
    have hcl := List.countP_le_length (p := fun d : Dim => d.found) (l := dims)
    unfold dcdLoop
    split
    · rw [if_neg (by omega)]
      exact ⟨_, rfl⟩
    · rename_i hcond
      simp only
      have hnot : ¬ (dims.all (·.found) = true) := by
        intro h; apply hcond; simp [h]
      have hlt : dims.countP (·.found) < dims.length := by
        rcases Nat.lt_or_ge (dims.countP (·.found)) dims.length with h | h
        · exact h
        · exfalso
          apply hnot
          have he : dims.countP (·.found) = dims.length := by omega
          rw [List.all_eq_true]
          exact List.countP_eq_length.mp he
      split
      · rename_i hany
        obtain ⟨b, hb, hbt⟩ := List.any_eq_true.mp hany
        have hb' := List.mem_of_mem_drop hb
        obtain ⟨d, hd, rfl⟩ := List.mem_map.mp hb'
        have hinc := (countP_hitUpdate _ dims).2 ⟨d, hd, by simpa using hbt⟩
        exact ih (it + 1) _ (by simpa using hlen) (by omega) (by omega)
      · rw [if_neg (by omega)]
        exact ⟨_, rfl⟩

theorem prodL_bounds : ∀ (fine c : List Nat) (a b : Nat), c.length = fine.length →
    (∀ q ∈ fine.zip c, 1 ≤ q.2 ∧ q.2 ≤ q.1) → 1 ≤ a → a ≤ b →
    1 ≤ c.foldl (· * ·) a ∧ c.foldl (· * ·) a ≤ fine.foldl (· * ·) b := by
  intro fine
  induction fine with
  | nil => intro c a b hl _ ha hab; cases c with
    | nil => exact ⟨ha, hab⟩
    | cons _ _ => simp at hl
  | cons f fine ih =>
    intro c a b hl hz ha hab
    cases c with
    | nil => simp at hl
    | cons o c =>
      have ho := hz (f, o) (by simp)
      simp only [List.foldl_cons]
      apply ih c (a * o) (b * f) (by simpa using hl)
        (fun q hq => hz q (by simp only [List.zip_cons_cons]; exact List.mem_cons_of_mem _ hq))
      · exact Nat.mul_le_mul ha ho.1
      · exact Nat.mul_le_mul hab ho.2

theorem dcd_ok (root : Nat → Nat → Nat → Nat × Nat) (hroot : RootOk root) (target : Nat) (fine : List Nat)
    (hf : ∀ f ∈ fine, 1 ≤ f) :
    ∃ c, dcd root target fine = .ok c ∧ c.length = fine.length ∧
      ∀ q ∈ fine.zip c, 1 ≤ q.2 ∧ q.2 ≤ q.1 := by
  have hdims : ∀ d ∈ fine.map (fun f => ({ fine := f, opt := 1, found := false } : Dim)), DimOk d := by
    intro d hd
    obtain ⟨f, hfm, rfl⟩ := List.mem_map.mp hd
    exact ⟨Nat.le_refl _, hf f hfm⟩
  have hcount : (fine.map (fun f => ({ fine := f, opt := 1, found := false } : Dim))).countP (·.found) = 0 := by
    rw [List.countP_eq_zero]
    intro d hd
    obtain ⟨f, _, rfl⟩ := List.mem_map.mp hd
    simp
  have hlen0 : (fine.map (fun f => ({ fine := f, opt := 1, found := false } : Dim))).length = fine.length := by
    simp
  obtain ⟨c, hc⟩ := dcdLoop_noerr root (max 1 (min target (prodL fine))) fine.length (prodL fine)
    (fine.length + 2) 0 (fine.map (fun f => ({ fine := f, opt := 1, found := false } : Dim))) hlen0
    (by omega) (by omega)
  refine ⟨c, hc, ?_⟩
  obtain ⟨hl, hz⟩ := dcdLoop_ok root hroot (max 1 (min target (prodL fine))) fine.length (prodL fine)
    (by omega) (fine.length + 2) 0 _ c hlen0 hdims hc
  refine ⟨by simpa using hl, ?_⟩
  intro q hq
  obtain ⟨i, hi, he⟩ := List.mem_iff_getElem.mp hq
  have hi' : i < ((fine.map (fun f => ({ fine := f, opt := 1, found := false } : Dim))).zip c).length := by
    simpa using hi
  have := hz _ (List.getElem_mem hi')
  simp only [List.getElem_zip, List.getElem_map] at this he
  rw [← he]
  exact this

/-! ### sign rule of the `faces=True` grids -/

theorem firstOccAux_length : ∀ (l seen : List Nat), (firstOccAux seen l).length = l.length := by
  intro l
  induction l with
  | nil => intro _; rfl
  | cons x l ih => intro seen; simp [firstOccAux, ih]

theorem firstOccAux_append : ∀ (a b seen : List Nat),
    firstOccAux seen (a ++ b) = firstOccAux seen a ++ firstOccAux (a.reverse ++ seen) b := by
  intro a
  induction a with
  | nil => intro b seen; rfl
  | cons x a ih =>
    intro b seen
    simp only [List.cons_append, firstOccAux, ih, List.reverse_cons, List.append_assoc,
      List.cons_append, List.nil_append]

theorem flatten_signCols (first other : Int) : ∀ (cols : List (List Nat)) (seen : List Nat),
    (signCols first other seen cols).flatten
      = (firstOccAux seen cols.flatten).map (fun b => if b then first else other) := by
  intro cols
  induction cols with
  | nil => intro _; rfl
  | cons col rest ih =>
    intro seen
    simp only [signCols, List.flatten_cons, ih, firstOccAux_append, List.map_append]

theorem signCols_shape (first other : Int) : ∀ (cols : List (List Nat)) (seen : List Nat),
    (signCols first other seen cols).map List.length = cols.map List.length := by
  intro cols
  induction cols with
  | nil => intro _; rfl
  | cons col rest ih =>
    intro seen
    simp only [signCols, List.map_cons, List.length_map, firstOccAux_length, ih]

/-- position `p` is marked "first" iff its value was not seen before and does not occur earlier -/
theorem firstOccAux_spec : ∀ (l seen : List Nat) (p : Nat), p < l.length →
    ((firstOccAux seen l).getD p false = true ↔
      l.getD p 0 ∉ seen ∧ l.getD p 0 ∉ l.take p) := by
  intro l
  induction l with
  | nil => intro _ p hp; simp at hp
  | cons x l ih =>
    intro seen p hp
    cases p with
    | zero => simp [firstOccAux]
    | succ p =>
      have hp' : p < l.length := by simpa using hp
      have := ih (x :: seen) p hp'
      simp only [firstOccAux, List.getD_cons_succ, List.take_succ_cons, List.mem_cons, not_or] at this ⊢
      rw [this]
      constructor
      · rintro ⟨⟨h1, h2⟩, h3⟩; exact ⟨h2, h1, h3⟩
      · rintro ⟨h2, h1, h3⟩; exact ⟨⟨h1, h2⟩, h3⟩

/-- recursive form of a row sum -/
def sumAt (v : Nat) : List Nat → List Int → Int
  | x :: xs, s :: ss => (if x == v then s else 0) + sumAt v xs ss
  | _, _ => 0

theorem foldl_add_acc : ∀ (l : List (Nat × Int)) (acc : Int),
    l.foldl (fun a p => a + p.2) acc = acc + l.foldl (fun a p => a + p.2) 0 := by
  intro l
  induction l with
  | nil => intro acc; simp
  | cons p l ih =>
    intro acc
    simp only [List.foldl_cons]
    rw [ih (acc + p.2), ih (0 + p.2)]
    omega

theorem rowSum_eq_sumAt (cols : List (List Nat)) (sg : List (List Int)) (v : Nat) :
    rowSum cols sg v = sumAt v cols.flatten sg.flatten := by
  unfold rowSum
  generalize cols.flatten = xs
  generalize sg.flatten = ss
  induction xs generalizing ss with
  | nil => simp [sumAt]
  | cons x xs ih =>
    cases ss with
    | nil => simp [sumAt]
    | cons s ss =>
      simp only [List.zip_cons_cons, List.filter_cons, sumAt]
      by_cases hx : (x == v) = true
      · simp only [hx, if_true, List.foldl_cons]
        rw [foldl_add_acc, ih ss]
        omega
      · simp only [hx, Bool.false_eq_true, if_false]
        rw [ih ss]
        omega

/-- sum of the coded signs over all occurrences of `v`: the first occurrence carries `a`, every later
    one `b` (`b = ±1`) -/
theorem sumAt_firstOcc (a b : Int) (hb : b = 1 ∨ b = -1) (v : Nat) : ∀ (xs seen : List Nat),
    sumAt v xs ((firstOccAux seen xs).map (fun t => if t then a else b))
      = if v ∈ seen then (xs.count v : Int) * b
        else if xs.count v = 0 then 0 else a + ((xs.count v : Int) - 1) * b := by
  intro xs
  induction xs with
  | nil => intro seen; simp [sumAt]
  | cons x xs ih =>
    intro seen
    simp only [firstOccAux, List.map_cons, sumAt, ih (x :: seen), List.mem_cons, List.count_cons]
    by_cases hx : x = v
    · subst hx
      simp only [beq_self_eq_true, if_true, true_or]
      by_cases hs : x ∈ seen
      · have hc : seen.contains x = true := List.contains_iff_mem.mpr hs
        simp only [hs, hc, Bool.not_true, if_true]
        rcases hb with rfl | rfl <;> simp <;> omega
      · have hc : seen.contains x = false := by
          apply Bool.eq_false_iff.mpr; intro h; exact hs (List.contains_iff_mem.mp h)
        simp only [hs, hc, Bool.not_false, if_false]
        rcases hb with rfl | rfl <;> simp <;> omega
    · have hbeq : (x == v) = false := by simpa using hx
      have hne : ¬ (v = x) := fun h => hx h.symm
      simp only [hbeq, hne, false_or, Bool.false_eq_true, if_false]
      by_cases hs : v ∈ seen <;> simp [hs]

theorem rowSum_signCols (a b : Int) (hb : b = 1 ∨ b = -1) (cols : List (List Nat)) (v : Nat) :
    rowSum cols (signCols a b [] cols) v
      = if cols.flatten.count v = 0 then 0 else a + ((cols.flatten.count v : Int) - 1) * b := by
  rw [rowSum_eq_sumAt, flatten_signCols, sumAt_firstOcc a b hb v cols.flatten []]
  simp

theorem not_orientationBad {cf : List (List Nat)} {sg : List (List Int)} {nf : Nat}
    (h : orientationBad cf sg nf = false) : ∀ v, v < nf → (rowSum cf sg v).natAbs ≤ 1 := by
  intro v hv
  unfold orientationBad at h
  rcases Nat.lt_or_ge 1 (rowSum cf sg v).natAbs with hlt | hge
  · have : (List.range nf).any (fun lf => decide (1 < (rowSum cf sg lf).natAbs)) = true :=
      List.any_eq_true.mpr ⟨v, List.mem_range.mpr hv, by simpa using hlt⟩
    rw [this] at h; cases h
  · exact hge

/-! ### edges of the 3-d → 2-d variant -/

theorem getD_idxOf_map {α : Type} (g : α → Nat) (d : α) (l : List α) {k : Nat} (hk : k ∈ l.map g) :
    g (l.getD ((l.map g).idxOf k) d) = k := by
  have hlt : (l.map g).idxOf k < (l.map g).length := List.idxOf_lt_length_iff.mpr hk
  have hlt' : (l.map g).idxOf k < l.length := by simpa using hlt
  have := List.getElem_idxOf hlt
  rw [List.getElem_map] at this
  rw [List.getD_eq_getElem?_getD, List.getElem?_eq_getElem hlt']
  simpa using this

theorem cyclicEdges_map (g : Nat → Nat) (col : List Nat) :
    (cyclicEdges col).map (fun e => (g e.1, g e.2)) = cyclicEdges (col.map g) := by
  unfold cyclicEdges
  rw [← List.map_drop, ← List.map_take, ← List.map_append, List.zip_map]
  rfl

/-- the undirected-edge key determines the unordered pair (nodes below the radix) -/
theorem edgeKey_inj {m : Nat} {e e' : Nat × Nat} (h1 : e.1 < m) (h2 : e.2 < m) (h1' : e'.1 < m)
    (h2' : e'.2 < m) (h : edgeKey m e = edgeKey m e') :
    (e.1 = e'.1 ∧ e.2 = e'.2) ∨ (e.1 = e'.2 ∧ e.2 = e'.1) := by
  unfold edgeKey at h
  have hmax : max e.1 e.2 < m := by omega
  have hmax' : max e'.1 e'.2 < m := by omega
  have hdiv : ∀ (a b : Nat), b < m → (a * m + b) / m = a ∧ (a * m + b) % m = b := by
    intro a b hb
    have hm : 0 < m := by omega
    constructor
    · rw [Nat.mul_comm, Nat.mul_add_div hm, Nat.div_eq_of_lt hb]; omega
    · rw [Nat.mul_comm, Nat.mul_add_mod, Nat.mod_eq_of_lt hb]
  have ha := (hdiv (min e.1 e.2) (max e.1 e.2) hmax).1
  have hb := (hdiv (min e.1 e.2) (max e.1 e.2) hmax).2
  have ha' := (hdiv (min e'.1 e'.2) (max e'.1 e'.2) hmax').1
  have hb' := (hdiv (min e'.1 e'.2) (max e'.1 e'.2) hmax').2
  rw [h] at ha hb
  have hmin : min e.1 e.2 = min e'.1 e'.2 := by omega
  have hmx : max e.1 e.2 = max e'.1 e'.2 := by omega
  omega

theorem mem_cyclicEdges {col : List Nat} {e : Nat × Nat} (h : e ∈ cyclicEdges col) :
    e.1 ∈ col ∧ e.2 ∈ col := by
  unfold cyclicEdges at h
  have := List.of_mem_zip h
  refine ⟨this.1, ?_⟩
  rcases List.mem_append.mp this.2 with h2 | h2
  · exact List.mem_of_mem_drop h2
  · exact List.mem_of_mem_take h2

/-! ### `partition_coordinates`: box search -/

/-- hypothesis on an axis and a coordinate: at least one box, and the coordinate lies in `[lo, hi)` -/
def AxisOk (a : Axis) (x : Rat) : Prop := 1 ≤ a.c ∧ a.lo ≤ x ∧ x < a.hi

theorem inBox_iff {a : Axis} {k : Nat} {x : Rat} : inBox a k x = true ↔
    a.lo + (a.hi - a.lo) / (a.c : Rat) * (k : Rat) ≤ x ∧
    x < a.lo + (a.hi - a.lo) / (a.c : Rat) * ((k : Rat) + 1) := by
  simp [inBox]

theorem dx_pos {a : Axis} {x : Rat} (h : AxisOk a x) : 0 < (a.hi - a.lo) / (a.c : Rat) := by
  obtain ⟨hc, h1, h2⟩ := h
  have hc0 : (0 : Rat) < (a.c : Rat) := by exact_mod_cast hc
  rw [Rat.div_def]
  apply Rat.mul_pos
  · grind
  · exact Rat.inv_pos.mpr hc0

/-- along one axis there is a box containing the coordinate … -/
theorem inBox_exists {a : Axis} {x : Rat} (h : AxisOk a x) : ∃ k, k < a.c ∧ inBox a k x = true := by
  have hdx := dx_pos h
  obtain ⟨hc, h1, h2⟩ := h
  have hc0 : (0 : Rat) < (a.c : Rat) := by exact_mod_cast hc
  have hne : (a.c : Rat) ≠ 0 := by grind
  have htop : a.lo + (a.hi - a.lo) / (a.c : Rat) * (a.c : Rat) = a.hi := by grind
  have key : ∀ n : Nat, n ≤ a.c → x < a.lo + (a.hi - a.lo) / (a.c : Rat) * (n : Rat) →
      ∃ k, k < n ∧ inBox a k x = true := by
    intro n
    induction n with
    | zero =>
      intro _ hx
      exfalso
      have : a.lo + (a.hi - a.lo) / (a.c : Rat) * ((0 : Nat) : Rat) = a.lo := by simp; grind
      rw [this] at hx
      grind
    | succ n ih =>
      intro hn hx
      by_cases hlt : x < a.lo + (a.hi - a.lo) / (a.c : Rat) * (n : Rat)
      · obtain ⟨k, hk, hb⟩ := ih (by omega) hlt
        exact ⟨k, by omega, hb⟩
      · refine ⟨n, by omega, inBox_iff.mpr ⟨by grind, ?_⟩⟩
        have : ((n + 1 : Nat) : Rat) = (n : Rat) + 1 := by push_cast; rfl
        rw [this] at hx
        exact hx
  exact key a.c (Nat.le_refl _) (by rw [htop]; exact h2)

/-- … and only one -/
theorem inBox_unique {a : Axis} {x : Rat} (h : AxisOk a x) {k k' : Nat}
    (hk : inBox a k x = true) (hk' : inBox a k' x = true) : k = k' := by
  have hdx := dx_pos h
  have aux : ∀ {k k' : Nat}, inBox a k x = true → inBox a k' x = true → ¬ k < k' := by
    intro k k' hk hk' hlt
    obtain ⟨_, u⟩ := inBox_iff.mp hk
    obtain ⟨l, _⟩ := inBox_iff.mp hk'
    have hle : ((k + 1 : Nat) : Rat) ≤ (k' : Rat) := by exact_mod_cast hlt
    have := Rat.mul_le_mul_of_nonneg_left hle (Rat.le_of_lt hdx)
    have e : ((k + 1 : Nat) : Rat) = (k : Rat) + 1 := by push_cast; rfl
    rw [e] at this
    grind
  have h1 := aux hk hk'
  have h2 := aux hk' hk
  omega

theorem prodL_cons (c : Nat) (cs : List Nat) : prodL (c :: cs) = c * prodL cs := by
  have gen : ∀ (l : List Nat) (a : Nat), l.foldl (· * ·) a = a * l.foldl (· * ·) 1 := by
    intro l
    induction l with
    | nil => intro a; simp
    | cons x l ih => intro a; simp only [List.foldl_cons]; rw [ih (a * x), ih (1 * x)]; simp [Nat.mul_assoc]
  unfold prodL
  simp only [List.foldl_cons]
  rw [gen cs (1 * c)]
  simp

/-- `np.ravel_multi_index` -/
def ravel : List Nat → List Nat → Nat
  | _ :: cs, k :: ks => k * prodL cs + ravel cs ks
  | _, _ => 0

theorem ravel_lt : ∀ (cs ks : List Nat), ks.length = cs.length → (∀ q ∈ ks.zip cs, q.1 < q.2) →
    ravel cs ks < prodL cs ∧ unravel cs (ravel cs ks) = ks := by
  intro cs
  induction cs with
  | nil => intro ks hl _; cases ks with
    | nil => simp [ravel, prodL, unravel]
    | cons _ _ => simp at hl
  | cons c cs ih =>
    intro ks hl hz
    cases ks with
    | nil => simp at hl
    | cons k ks =>
      have hk : k < c := hz (k, c) (by simp)
      obtain ⟨i1, i2⟩ := ih ks (by simpa using hl)
        (fun q hq => hz q (by simp only [List.zip_cons_cons]; exact List.mem_cons_of_mem _ hq))
      have hP : 0 < prodL cs := by omega
      simp only [ravel, unravel, prodL_cons]
      refine ⟨?_, ?_⟩
      · have : (k + 1) * prodL cs ≤ c * prodL cs := Nat.mul_le_mul_right _ (by omega)
        rw [Nat.succ_mul] at this
        omega
      · have e1 : (k * prodL cs + ravel cs ks) / prodL cs = k := by
          rw [Nat.mul_comm, Nat.mul_add_div hP, Nat.div_eq_of_lt i1]; omega
        have e2 : (k * prodL cs + ravel cs ks) % prodL cs = ravel cs ks := by
          rw [Nat.mul_comm, Nat.mul_add_mod, Nat.mod_eq_of_lt i1]
        rw [e1, e2, i2]

theorem unravel_inj : ∀ (cs : List Nat) (i j : Nat), i < prodL cs → j < prodL cs →
    unravel cs i = unravel cs j → i = j := by
  intro cs
  induction cs with
  | nil => intro i j hi hj _; simp [prodL] at hi hj; omega
  | cons c cs ih =>
    intro i j hi hj h
    simp only [unravel, List.cons.injEq] at h
    obtain ⟨h1, h2⟩ := h
    rw [prodL_cons] at hi hj
    have hP : 0 < prodL cs := by
      rcases Nat.eq_zero_or_pos (prodL cs) with h0 | h0
      · rw [h0] at hi; simp at hi
      · exact h0
    have := ih (i % prodL cs) (j % prodL cs) (Nat.mod_lt _ hP) (Nat.mod_lt _ hP) h2
    have ei := Nat.div_add_mod i (prodL cs)
    have ej := Nat.div_add_mod j (prodL cs)
    rw [h1, this] at ei
    omega

theorem unravel_length (cs : List Nat) : ∀ i, (unravel cs i).length = cs.length := by
  induction cs with
  | nil => intro i; rfl
  | cons c cs ih => intro i; simp [unravel, ih]

/-- every coordinate of the point lies inside the node extent of its axis (same number of axes) -/
def AllOk : List Axis → List Rat → Prop
  | a :: as, x :: xs => AxisOk a x ∧ AllOk as xs
  | [], [] => True
  | _, _ => False

theorem hitAll_exists : ∀ (axes : List Axis) (xs : List Rat), AllOk axes xs →
    ∃ ks, ks.length = axes.length ∧ (∀ q ∈ ks.zip (axes.map (·.c)), q.1 < q.2) ∧
      hitAll axes ks xs = true := by
  intro axes
  induction axes with
  | nil =>
    intro xs h
    cases xs with
    | nil => exact ⟨[], rfl, by intro q hq; simp at hq, rfl⟩
    | cons _ _ => simp [AllOk] at h
  | cons a as ih =>
    intro xs h
    cases xs with
    | nil => simp [AllOk] at h
    | cons x xs =>
      obtain ⟨ha, has⟩ := h
      obtain ⟨ks, hl, hz, hh⟩ := ih xs has
      obtain ⟨k, hk, hb⟩ := inBox_exists ha
      refine ⟨k :: ks, by simp [hl], ?_, by simp [hitAll, hb, hh]⟩
      intro q hq
      simp only [List.map_cons, List.zip_cons_cons, List.mem_cons] at hq
      rcases hq with rfl | hq
      · exact hk
      · exact hz q hq

theorem hitAll_unique : ∀ (axes : List Axis) (xs : List Rat) (ks ks' : List Nat), AllOk axes xs →
    hitAll axes ks xs = true → hitAll axes ks' xs = true → ks = ks' := by
  intro axes
  induction axes with
  | nil =>
    intro xs ks ks' _ h h'
    cases xs <;> cases ks <;> cases ks' <;> simp [hitAll] at h h' ⊢
  | cons a as ih =>
    intro xs ks ks' hok h h'
    cases xs with
    | nil => simp [AllOk] at hok
    | cons x xs =>
      cases ks with
      | nil => simp [hitAll] at h
      | cons k ks =>
        cases ks' with
        | nil => simp [hitAll] at h'
        | cons k' ks' =>
          simp only [hitAll, Bool.and_eq_true] at h h'
          rw [inBox_unique hok.1 h.1 h'.1, ih xs ks ks' hok.2 h.2 h'.2]

/-- the overwrite loop returns the unique hit -/
theorem foldl_last_hit (P : Nat → Bool) (i0 : Nat) : ∀ n, i0 < n → P i0 = true →
    (∀ i, i < n → P i = true → i = i0) →
    (List.range n).foldl (fun acc i => if P i then (i : Int) else acc) (-1) = (i0 : Int) := by
  intro n
  induction n with
  | zero => intro h; omega
  | succ n ih =>
    intro hlt hP huniq
    rw [List.range_succ, List.foldl_append]
    simp only [List.foldl_cons, List.foldl_nil]
    by_cases hn : i0 = n
    · subst hn; rw [if_pos hP]
    · have hPn : P n = false := by
        apply Bool.eq_false_iff.mpr
        intro h
        exact hn (huniq n (by omega) h).symm
      rw [hPn]
      simp only [Bool.false_eq_true, if_false]
      exact ih (by omega) hP (fun i hi hp => huniq i (by omega) hp)

/-- a cell centre inside the node extent is assigned exactly one box, in range: the box containing it -/
theorem assignBox_spec (axes : List Axis) (x : List Rat) (h : AllOk axes x) :
    ∃ i : Nat, assignBox axes x = (i : Int) ∧ i < prodL (axes.map (·.c)) ∧
      hitAll axes (unravel (axes.map (·.c)) i) x = true ∧
      ∀ j, j < prodL (axes.map (·.c)) → hitAll axes (unravel (axes.map (·.c)) j) x = true → j = i := by
  obtain ⟨ks, hl, hz, hh⟩ := hitAll_exists axes x h
  obtain ⟨r1, r2⟩ := ravel_lt (axes.map (·.c)) ks (by simpa using hl) hz
  have huniq : ∀ j, j < prodL (axes.map (·.c)) → hitAll axes (unravel (axes.map (·.c)) j) x = true →
      j = ravel (axes.map (·.c)) ks := by
    intro j hj hjh
    have := hitAll_unique axes x _ ks h hjh hh
    exact unravel_inj _ _ _ hj r1 (by rw [this, r2])
  refine ⟨ravel (axes.map (·.c)) ks, ?_, r1, by rw [r2]; exact hh, huniq⟩
  unfold assignBox
  exact foldl_last_hit (fun i => hitAll axes (unravel (axes.map (·.c)) i) x) _ _ r1
    (by show hitAll axes (unravel _ (ravel _ ks)) x = true; rw [r2]; exact hh) huniq

end PorepyVerif.C22
