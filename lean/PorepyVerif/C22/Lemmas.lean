/-
C22 — helper lemmas for the property theorems in Props.lean.
-/
import PorepyVerif.C22.Model

namespace PorepyVerif.C22

/-! ### sorting -/

theorem mem_insertU {x y : Nat} {l : List Nat} : y ∈ insertU x l ↔ y = x ∨ y ∈ l := by
  induction l with
  | nil => simp [insertU]
  | cons a l ih =>
    unfold insertU
    split
    · simp
    · split
      · subst_vars; simp
      · simp only [List.mem_cons, ih]
        constructor <;> intro h <;> rcases h with h | h | h <;> simp [h]

theorem mem_usort {y : Nat} {l : List Nat} : y ∈ usort l ↔ y ∈ l := by
  induction l with
  | nil => simp [usort]
  | cons a l ih => simp [usort, mem_insertU, ih]

theorem pairwise_insertU {x : Nat} {l : List Nat} (h : l.Pairwise (· < ·)) :
    (insertU x l).Pairwise (· < ·) := by
  induction l with
  | nil => simp [insertU]
  | cons a l ih =>
    have ha := (List.pairwise_cons.mp h).1
    have hl := List.Pairwise.of_cons h
    unfold insertU
    split
    · rename_i hxa
      refine List.Pairwise.cons ?_ h
      intro b hb
      rcases List.mem_cons.mp hb with rfl | hb
      · exact hxa
      · exact Nat.lt_trans hxa (ha b hb)
    · split
      · exact h
      · rename_i h1 h2
        refine List.Pairwise.cons ?_ (ih hl)
        intro b hb
        rcases mem_insertU.mp hb with rfl | hb
        · omega
        · exact ha b hb

theorem pairwise_usort (l : List Nat) : (usort l).Pairwise (· < ·) := by
  induction l with
  | nil => simp [usort]
  | cons a l ih => exact pairwise_insertU ih

theorem nodup_of_pairwise_lt {l : List Nat} (h : l.Pairwise (· < ·)) : l.Nodup :=
  List.Pairwise.imp (fun hab => Nat.ne_of_lt hab) h

theorem perm_insertS (x : Nat) (l : List Nat) : (insertS x l).Perm (x :: l) := by
  induction l with
  | nil => simp [insertS]
  | cons a l ih =>
    unfold insertS
    split
    · exact List.Perm.refl _
    · exact ((List.Perm.cons a ih).trans (List.Perm.swap x a l))

theorem perm_isort (l : List Nat) : (isort l).Perm l := by
  induction l with
  | nil => exact List.Perm.refl _
  | cons a l ih => exact (perm_insertS a (isort l)).trans (List.Perm.cons a ih)

theorem mem_insertS {x y : Nat} {l : List Nat} : y ∈ insertS x l ↔ y = x ∨ y ∈ l := by
  rw [(perm_insertS x l).mem_iff]; simp

theorem pairwise_insertS {x : Nat} {l : List Nat} (h : l.Pairwise (· ≤ ·)) :
    (insertS x l).Pairwise (· ≤ ·) := by
  induction l with
  | nil => simp [insertS]
  | cons a l ih =>
    have ha := (List.pairwise_cons.mp h).1
    have hl := List.Pairwise.of_cons h
    unfold insertS
    split
    · rename_i hxa
      refine List.Pairwise.cons ?_ h
      intro b hb
      rcases List.mem_cons.mp hb with rfl | hb
      · exact hxa
      · exact Nat.le_trans hxa (ha b hb)
    · rename_i h1
      refine List.Pairwise.cons ?_ (ih hl)
      intro b hb
      rcases mem_insertS.mp hb with rfl | hb
      · omega
      · exact ha b hb

theorem pairwise_isort (l : List Nat) : (isort l).Pairwise (· ≤ ·) := by
  induction l with
  | nil => simp [isort]
  | cons a l ih => exact pairwise_insertS ih

/-- sorting a sorted list changes nothing -/
theorem isort_of_sorted {l : List Nat} (h : l.Pairwise (· ≤ ·)) : isort l = l := by
  induction l with
  | nil => rfl
  | cons a l ih =>
    have ha := (List.pairwise_cons.mp h).1
    simp only [isort, ih (List.Pairwise.of_cons h)]
    cases l with
    | nil => rfl
    | cons b l => simp [insertS, ha b (List.mem_cons_self)]

/-! ### `_extract_submatrix` -/

theorem getD_idxOf {u : List Nat} {x : Nat} (h : x ∈ u) : u.getD (u.idxOf x) 0 = x := by
  have hlt : u.idxOf x < u.length := List.idxOf_lt_length_iff.mpr h
  simp [List.getD_eq_getElem?_getD, List.getElem?_eq_getElem hlt, List.getElem_idxOf hlt]

theorem renumber_back (u : List Nat) (cols : List (List Nat))
    (h : ∀ col ∈ cols, ∀ r ∈ col, r ∈ u) :
    (renumber u cols).map (fun col => col.map (fun j => u.getD j 0)) = cols := by
  unfold renumber
  rw [List.map_map]
  conv => rhs; rw [← List.map_id cols]
  apply List.map_congr_left
  intro col hcol
  simp only [Function.comp, List.map_map, id]
  conv => rhs; rw [← List.map_id col]
  apply List.map_congr_left
  intro r hr
  show u.getD (u.idxOf r) 0 = r
  exact getD_idxOf (h col hcol r hr)

theorem mem_uniqueRows {x : Nat} {cols : List (List Nat)} :
    x ∈ uniqueRows cols ↔ ∃ col ∈ cols, x ∈ col := by
  simp [uniqueRows, mem_usort, List.mem_flatten]

theorem mem_subCols {α : Type} {m : List (List α)} {ind : List Nat} {col : List α} :
    col ∈ subCols m ind ↔ ∃ i ∈ ind, m.getD i [] = col := by
  simp [subCols]

/-- specification of `_extract_submatrix` -/
theorem extractSub_spec (m : List (List Nat)) (ind : List Nat) :
    (extractSub m ind).2.Pairwise (· < ·) ∧
    (∀ x, x ∈ (extractSub m ind).2 ↔ ∃ i ∈ ind, x ∈ m.getD i []) ∧
    (extractSub m ind).1.map (fun col => col.map (fun j => (extractSub m ind).2.getD j 0))
      = ind.map (fun i => m.getD i []) ∧
    (∀ col ∈ (extractSub m ind).1, ∀ j ∈ col, j < (extractSub m ind).2.length) := by
  refine ⟨pairwise_usort _, ?_, ?_, ?_⟩
  · intro x
    show x ∈ uniqueRows (subCols m ind) ↔ _
    rw [mem_uniqueRows]
    constructor
    · rintro ⟨col, hcol, hx⟩
      obtain ⟨i, hi, rfl⟩ := mem_subCols.mp hcol
      exact ⟨i, hi, hx⟩
    · rintro ⟨i, hi, hx⟩
      exact ⟨_, mem_subCols.mpr ⟨i, hi, rfl⟩, hx⟩
  · have e1 : (extractSub m ind).1 = renumber (uniqueRows (subCols m ind)) (subCols m ind) := rfl
    have e2 : (extractSub m ind).2 = uniqueRows (subCols m ind) := rfl
    rw [e1, e2, renumber_back]
    · rfl
    · intro col hcol r hr
      exact mem_uniqueRows.mpr ⟨col, hcol, hr⟩
  · intro col hcol j hj
    change col ∈ renumber (uniqueRows (subCols m ind)) (subCols m ind) at hcol
    simp only [renumber, List.mem_map] at hcol
    obtain ⟨col0, hcol0, rfl⟩ := hcol
    obtain ⟨r, hr, rfl⟩ := List.mem_map.mp hj
    exact List.idxOf_lt_length_iff.mpr (mem_uniqueRows.mpr ⟨col0, hcol0, hr⟩)

/-! ### unfolding `extract` -/

theorem not_any_ge {l : List Nat} {n : Nat} (h : ¬ (l.any (fun i => decide (n ≤ i)) = true)) :
    ∀ i ∈ l, i < n := by
  intro i hi
  by_cases hlt : i < n
  · exact hlt
  · exact absurd (List.any_eq_true.mpr ⟨i, hi, by simp; omega⟩) h

theorem extractCore_ok {g : Topo} {c : List Nat} {r : Sub} (h : extractCore g c = .ok r) :
    r.cells = c ∧
    r.faceMap = (extractSub g.cfFaces c).2 ∧
    r.cfFaces = (extractSub g.cfFaces c).1 ∧
    r.nodeMap = (extractSub g.fn r.faceMap).2 ∧
    r.fn = (extractSub g.fn r.faceMap).1 ∧
    r.cfSigns = subCols g.cfSigns c ∧
    (∀ i ∈ c, i < g.cfFaces.length) ∧
    (∀ f ∈ r.faceMap, f < g.fn.length) ∧
    orientationBad r.cfFaces r.cfSigns r.faceMap.length = false := by
  unfold extractCore at h
  simp only at h
  by_cases h1 : (c.any (fun i => decide (g.cfFaces.length ≤ i))) = true
  · rw [if_pos h1] at h; cases h
  · rw [if_neg h1] at h
    by_cases h2 : ((extractSub g.cfFaces c).2.any (fun f => decide (g.fn.length ≤ f))) = true
    · rw [if_pos h2] at h; cases h
    · rw [if_neg h2] at h
      by_cases h3 : orientationBad (extractSub g.cfFaces c).1 (subCols g.cfSigns c)
          (extractSub g.cfFaces c).2.length = true
      · rw [if_pos h3] at h; cases h
      · rw [if_neg h3] at h
        injection h with h
        subst h
        refine ⟨rfl, rfl, rfl, rfl, rfl, rfl, not_any_ge h1, not_any_ge h2, ?_⟩
        simpa using h3

/-! ### indexing a `flatMap` with rows of equal length -/

theorem getD_flatMap_uniform {α β : Type} (g : α → List β) (n : Nat) (d : β) (dy : α) :
    ∀ (ys : List α), (∀ y ∈ ys, (g y).length = n) → ∀ (i j : Nat), i < n → j < ys.length →
      (ys.flatMap g).getD (i + n * j) d = (g (ys.getD j dy)).getD i d := by
  intro ys
  induction ys with
  | nil => intro _ i j _ hj; simp at hj
  | cons y ys ih =>
    intro hlen i j hi hj
    have hy : (g y).length = n := hlen y List.mem_cons_self
    simp only [List.flatMap_cons]
    cases j with
    | zero =>
      simp only [Nat.mul_zero, Nat.add_zero]
      rw [List.getD_eq_getElem?_getD, List.getD_eq_getElem?_getD, List.getD_eq_getElem?_getD,
        List.getElem?_append_left (by omega)]
      simp
    | succ j =>
      have hidx : i + n * (j + 1) = (g y).length + (i + n * j) := by
        rw [hy, Nat.mul_succ]; omega
      rw [hidx, List.getD_eq_getElem?_getD, List.getElem?_append_right (by omega)]
      simp only [Nat.add_sub_cancel_left]
      rw [← List.getD_eq_getElem?_getD, ih (fun y hy' => hlen y (List.mem_cons_of_mem _ hy')) i j hi
        (by simpa using hj)]
      simp

/-! ### `partition_grid` -/

theorem mem_partCells_flatten {ind : List Nat} {c : Nat} :
    c ∈ (partCells ind).flatten ↔ c < ind.length := by
  simp only [partCells, List.mem_flatten, List.mem_map]
  constructor
  · rintro ⟨l, ⟨i, _, rfl⟩, hc⟩
    exact List.mem_range.mp (List.mem_filter.mp hc).1
  · intro hc
    refine ⟨_, ⟨ind.getD c 0, ?_, rfl⟩, ?_⟩
    · rw [mem_usort, List.getD_eq_getElem?_getD, List.getElem?_eq_getElem hc]
      simp
    · simp [List.mem_filter, hc]

theorem nodup_partCells_flatten (ind : List Nat) : (partCells ind).flatten.Nodup := by
  unfold List.Nodup
  rw [List.pairwise_flatten]
  constructor
  · intro l hl
    simp only [partCells, List.mem_map] at hl
    obtain ⟨i, _, rfl⟩ := hl
    exact List.Pairwise.filter _ List.nodup_range
  · unfold partCells
    rw [List.pairwise_map]
    refine List.Pairwise.imp ?_ (pairwise_usort ind)
    intro i j hij x hx y hy hxy
    subst hxy
    have h1 := (List.mem_filter.mp hx).2
    have h2 := (List.mem_filter.mp hy).2
    simp at h1 h2
    omega

theorem partCells_sorted {ind : List Nat} {cs : List Nat} (h : cs ∈ partCells ind) :
    cs.Pairwise (· ≤ ·) := by
  simp only [partCells, List.mem_map] at h
  obtain ⟨i, _, rfl⟩ := h
  exact List.Pairwise.filter _ (List.Pairwise.imp (fun h => Nat.le_of_lt h) List.pairwise_lt_range)

/-! ### `partition_structured`: per-axis index -/

theorem arange_length_ge {f c : Nat} (hc : 1 ≤ c) (hcf : c ≤ f) :
    c ≤ (f + f / c - 1) / (f / c) := by
  have hs : 0 < f / c := Nat.div_pos hcf (by omega)
  rw [Nat.le_div_iff_mul_le hs]
  have := Nat.div_mul_le_self f c
  have h2 : c * (f / c) = f / c * c := Nat.mul_comm _ _
  omega

theorem incrInd_eq {f c : Nat} (hc : 1 ≤ c) (hcf : c ≤ f) :
    incrInd f c = (List.range c).map (· * (f / c)) := by
  have hge := arange_length_ge hc hcf
  unfold incrInd
  rw [if_neg (by omega)]
  simp only [arange, List.length_map, List.length_range]
  split
  · rw [← List.map_take, List.take_range, Nat.min_eq_left (by omega)]
  · have : (f + f / c - 1) / (f / c) = c := by omega
    rw [this]

theorem mem_incrInd {f c i : Nat} (hc : 1 ≤ c) (hcf : c ≤ f) :
    i ∈ incrInd f c ↔ ∃ k, k < c ∧ i = k * (f / c) := by
  rw [incrInd_eq hc hcf]
  simp only [List.mem_map, List.mem_range]
  constructor
  · rintro ⟨k, hk, rfl⟩; exact ⟨k, hk, rfl⟩
  · rintro ⟨k, hk, rfl⟩; exact ⟨k, hk, rfl⟩

/-- cumulative sums along `range' a n` of `g` are `h`, if `h` satisfies the recurrence -/
theorem cumsumFrom_range' (g h : Nat → Int) (hstep : ∀ i, h (i + 1) = h i + g (i + 1)) :
    ∀ (n a : Nat) (acc : Int), acc + g a = h a →
      cumsumFrom acc ((List.range' a n).map g) = (List.range' a n).map h := by
  intro n
  induction n with
  | zero => intro a acc _; rfl
  | succ n ih =>
    intro a acc h0
    simp only [List.range'_succ, List.map_cons, cumsumFrom]
    rw [h0, ih (a + 1) (h a) (by rw [hstep])]

/-- the closed form of the coarse index along one axis -/
def axisSpec (f c i : Nat) : Nat := min (i / (f / c)) (c - 1)

theorem axisSpec_step {f c : Nat} (hc : 1 ≤ c) (hcf : c ≤ f) (i : Nat) :
    ((axisSpec f c (i + 1) : Nat) : Int) + 1 =
      ((axisSpec f c i : Nat) : Int) + 1 + (if (incrInd f c).contains (i + 1) then 1 else 0) := by
  have hs : 0 < f / c := Nat.div_pos hcf (by omega)
  unfold axisSpec
  rw [Nat.succ_div]
  by_cases hd : f / c ∣ i + 1
  · rw [if_pos hd]
    obtain ⟨k, hk⟩ := hd
    have hk' : i + 1 = k * (f / c) := by rw [hk, Nat.mul_comm]
    have hdiv : (i + 1) / (f / c) = k := by rw [hk', Nat.mul_div_cancel _ hs]
    have hsucc : i / (f / c) + 1 = k := by
      have := @Nat.succ_div i (f / c)
      rw [if_pos ⟨k, hk⟩, hdiv] at this
      omega
    by_cases hkc : k < c
    · have hmem : (incrInd f c).contains (i + 1) = true :=
        List.contains_iff_mem.mpr ((mem_incrInd hc hcf).mpr ⟨k, hkc, hk'⟩)
      rw [hmem]
      simp only [if_true]
      omega
    · have hmem : (incrInd f c).contains (i + 1) = false := by
        apply Bool.eq_false_iff.mpr
        intro hm
        obtain ⟨k', hk'c, hk'e⟩ := (mem_incrInd hc hcf).mp (List.contains_iff_mem.mp hm)
        have : k' = k := by
          have := Nat.eq_of_mul_eq_mul_right hs (hk'e.symm.trans hk')
          exact this
        omega
      rw [hmem]
      simp only [Bool.false_eq_true, if_false]
      omega
  · rw [if_neg hd]
    have hmem : (incrInd f c).contains (i + 1) = false := by
      apply Bool.eq_false_iff.mpr
      intro hm
      obtain ⟨k', _, hk'e⟩ := (mem_incrInd hc hcf).mp (List.contains_iff_mem.mp hm)
      exact hd ⟨k', by rw [hk'e, Nat.mul_comm]⟩
    rw [hmem]
    simp

theorem axisIdx_closed {f c : Nat} (hc : 1 ≤ c) (hcf : c ≤ f) :
    axisIdx f c = (List.range f).map (fun i => ((axisSpec f c i : Nat) : Int)) := by
  have hs : 0 < f / c := Nat.div_pos hcf (by omega)
  unfold axisIdx locInd
  rw [List.range_eq_range']
  rw [cumsumFrom_range' (fun i => if (incrInd f c).contains i then 1 else 0)
        (fun i => ((axisSpec f c i : Nat) : Int) + 1) (axisSpec_step hc hcf) f 0 0]
  · rw [List.map_map]
    apply List.map_congr_left
    intro i _
    simp
  · have hmem : 0 ∈ incrInd f c := (mem_incrInd hc hcf).mpr ⟨0, by omega, by simp⟩
    simp [hmem, axisSpec]



theorem axisSpec_lt {f c : Nat} (hc : 1 ≤ c) (i : Nat) : axisSpec f c i < c := by
  unfold axisSpec; omega

theorem axisSpec_mono {f c i j : Nat} (h : i ≤ j) : axisSpec f c i ≤ axisSpec f c j := by
  unfold axisSpec
  have := Nat.div_le_div_right (c := f / c) h
  omega

theorem axisSpec_step_le {f c : Nat} (i : Nat) : axisSpec f c (i + 1) ≤ axisSpec f c i + 1 := by
  unfold axisSpec
  rw [Nat.succ_div]
  split <;> omega

theorem axisSpec_onto {f c k : Nat} (hc : 1 ≤ c) (hcf : c ≤ f) (hk : k < c) :
    k * (f / c) < f ∧ axisSpec f c (k * (f / c)) = k := by
  have hs : 0 < f / c := Nat.div_pos hcf (by omega)
  constructor
  · have h1 : (k + 1) * (f / c) ≤ c * (f / c) := Nat.mul_le_mul_right _ (by omega)
    have h2 : c * (f / c) ≤ f := by rw [Nat.mul_comm]; exact Nat.div_mul_le_self f c
    have h3 : (k + 1) * (f / c) = k * (f / c) + f / c := Nat.succ_mul _ _
    omega
  · unfold axisSpec
    rw [Nat.mul_div_cancel _ hs]
    omega

theorem mem_axisIdx {f c : Nat} (hc : 1 ≤ c) (hcf : c ≤ f) (x : Int) :
    x ∈ axisIdx f c ↔ ∃ i, i < f ∧ x = ((axisSpec f c i : Nat) : Int) := by
  rw [axisIdx_closed hc hcf]
  simp only [List.mem_map, List.mem_range]
  constructor
  · rintro ⟨i, hi, rfl⟩; exact ⟨i, hi, rfl⟩
  · rintro ⟨i, hi, rfl⟩; exact ⟨i, hi, rfl⟩

theorem axisIdx_range {f c : Nat} (hc : 1 ≤ c) (hcf : c ≤ f) {x : Int} (hx : x ∈ axisIdx f c) :
    0 ≤ x ∧ x < c := by
  obtain ⟨i, _, rfl⟩ := (mem_axisIdx hc hcf x).mp hx
  have := axisSpec_lt (f := f) hc i
  omega

theorem axisIdx_onto {f c k : Nat} (hc : 1 ≤ c) (hcf : c ≤ f) (hk : k < c) :
    ((k : Nat) : Int) ∈ axisIdx f c := by
  obtain ⟨h1, h2⟩ := axisSpec_onto hc hcf hk
  exact (mem_axisIdx hc hcf _).mpr ⟨_, h1, by rw [h2]⟩

theorem axisIdx_length (f c : Nat) : (axisIdx f c).length = f := by
  have hcs : ∀ (l : List Int) (acc : Int), (cumsumFrom acc l).length = l.length := by
    intro l
    induction l with
    | nil => intro _; rfl
    | cons a l ih => intro acc; simp [cumsumFrom, ih]
  simp [axisIdx, locInd, hcs]

/-! ### combination over the axes -/

theorem mem_combine2 {xi yi : List Int} {c0 : Nat} {p : Int} :
    p ∈ combine2 xi yi c0 ↔ ∃ y ∈ yi, ∃ x ∈ xi, p = x + y * c0 := by
  simp only [combine2, List.mem_flatMap, List.mem_map]
  constructor
  · rintro ⟨y, hy, x, hx, rfl⟩; exact ⟨y, hy, x, hx, rfl⟩
  · rintro ⟨y, hy, x, hx, rfl⟩; exact ⟨y, hy, x, hx, rfl⟩

theorem mem_combine3 {xi yi zi : List Int} {c0 c1 : Nat} {p : Int} :
    p ∈ combine3 xi yi zi c0 c1 ↔
      ∃ z ∈ zi, ∃ y ∈ yi, ∃ x ∈ xi, p = x + y * c0 + z * ((c0 * c1 : Nat) : Int) := by
  simp only [combine3, List.mem_flatMap, List.mem_map]
  constructor
  · rintro ⟨z, hz, y, hy, x, hx, rfl⟩; exact ⟨z, hz, y, hy, x, hx, rfl⟩
  · rintro ⟨z, hz, y, hy, x, hx, rfl⟩; exact ⟨z, hz, y, hy, x, hx, rfl⟩

/-- mixed-radix bound: digits `x < a`, `y < b` give `x + y·a < a·b` -/
theorem radix2 {a b : Nat} {x y : Int} (hx0 : 0 ≤ x) (hx : x < a) (hy0 : 0 ≤ y) (hy : y < b) :
    0 ≤ x + y * a ∧ x + y * a < ((a * b : Nat) : Int) := by
  have h1 : 0 ≤ y * (a : Int) := Int.mul_nonneg hy0 (by omega)
  have h2 : (y + 1) * (a : Int) ≤ (b : Int) * a := Int.mul_le_mul_of_nonneg_right (by omega) (by omega)
  have h3 : (y + 1) * (a : Int) = y * a + a := by rw [Int.add_mul, Int.one_mul]
  have h4 : ((a * b : Nat) : Int) = (b : Int) * a := by rw [Int.natCast_mul, Int.mul_comm]
  omega

/-! ### `overlap` -/

theorem mem_touched {ce : List (List Nat)} {cells : List Nat} {e : Nat} :
    e ∈ touched ce cells ↔ ∃ c ∈ cells, e ∈ ce.getD c [] := by
  simp [touched, List.mem_flatMap]

theorem mem_hits {ce : List (List Nat)} {ents : List Nat} {c : Nat} :
    c ∈ hits ce ents ↔ c < ce.length ∧ ∃ e ∈ ce.getD c [], e ∈ ents := by
  simp only [hits, List.mem_filter, List.mem_range, List.any_eq_true, List.contains_iff_mem]

/-- state invariant: every active entity belongs to an active cell -/
def OvInv (ce : List (List Nat)) (st : List Nat × List Nat) : Prop :=
  ∀ e ∈ st.2, ∃ c ∈ st.1, e ∈ ce.getD c []

theorem ovInv_layer {ce : List (List Nat)} {st : List Nat × List Nat} (h : OvInv ce st) :
    OvInv ce (layer ce st) := by
  intro e he
  simp only [layer, List.mem_append] at he ⊢
  rcases he with he | he
  · obtain ⟨c, hc, hec⟩ := h e he
    exact ⟨c, Or.inl hc, hec⟩
  · obtain ⟨c, hc, hec⟩ := mem_touched.mp he
    exact ⟨c, Or.inl hc, hec⟩

theorem ovInv_layers (ce : List (List Nat)) (cells : List Nat) (k : Nat) :
    OvInv ce (layers ce k (cells, [])) := by
  induction k with
  | zero => intro e he; simp [layers] at he
  | succ k ih => exact ovInv_layer ih

/-- one pass adds exactly the cells sharing an entity with an active cell -/
theorem mem_layer {ce : List (List Nat)} {st : List Nat × List Nat} (h : OvInv ce st) {c : Nat} :
    c ∈ (layer ce st).1 ↔
      c ∈ st.1 ∨ (c < ce.length ∧ ∃ c0 ∈ st.1, ∃ e, e ∈ ce.getD c0 [] ∧ e ∈ ce.getD c []) := by
  simp only [layer, List.mem_append, mem_hits, mem_touched]
  constructor
  · rintro (hc | ⟨hlt, e, hec, he | ⟨c0, hc0, hec0⟩⟩)
    · exact Or.inl hc
    · obtain ⟨c0, hc0, hec0⟩ := h e he
      exact Or.inr ⟨hlt, c0, hc0, e, hec0, hec⟩
    · exact Or.inr ⟨hlt, c0, hc0, e, hec0, hec⟩
  · rintro (hc | ⟨hlt, c0, hc0, e, hec0, hec⟩)
    · exact Or.inl hc
    · exact Or.inr ⟨hlt, e, hec, Or.inr ⟨c0, hc0, hec0⟩⟩

theorem layers_lt {ce : List (List Nat)} {cells : List Nat} (hcells : ∀ c ∈ cells, c < ce.length)
    (k : Nat) : ∀ c ∈ (layers ce k (cells, [])).1, c < ce.length := by
  induction k with
  | zero => exact hcells
  | succ k ih =>
    intro c hc
    rcases (mem_layer (ovInv_layers ce cells k)).mp hc with h | ⟨h, _⟩
    · exact ih c h
    · exact h

theorem mem_overlapCells {ce : List (List Nat)} {cells : List Nat} {k c : Nat} :
    c ∈ overlapCells ce cells k ↔ c < ce.length ∧ c ∈ (layers ce k (cells, [])).1 := by
  simp [overlapCells, List.mem_filter]

theorem mem_overlapCells' {ce : List (List Nat)} {cells : List Nat}
    (hcells : ∀ c ∈ cells, c < ce.length) {k c : Nat} :
    c ∈ overlapCells ce cells k ↔ c ∈ (layers ce k (cells, [])).1 := by
  rw [mem_overlapCells]
  exact ⟨fun h => h.2, fun h => ⟨layers_lt hcells k c h, h⟩⟩

theorem overlapCells_sorted (ce : List (List Nat)) (cells : List Nat) (k : Nat) :
    (overlapCells ce cells k).Pairwise (· < ·) :=
  List.Pairwise.filter _ List.pairwise_lt_range

theorem overlap_ok {ce : List (List Nat)} {cells : List Nat} (hcells : ∀ c ∈ cells, c < ce.length)
    (k : Nat) : overlap ce cells k = .ok (overlapCells ce cells k) := by
  unfold overlap
  rw [if_neg]
  intro h
  obtain ⟨c, hc, hdec⟩ := List.any_eq_true.mp h
  have := hcells c hc
  simp at hdec
  omega

/-! ### `partition_structured`: unfolding and arithmetic -/

theorem axisBad_false {f c : Nat} (hc : 1 ≤ c) (hcf : c ≤ f) : axisBad f c = false := by
  have : 0 < f / c := Nat.div_pos hcf (by omega)
  simp [axisBad]; omega

theorem ps1 {f0 c0 : Nat} (h0 : 1 ≤ c0 ∧ c0 ≤ f0) :
    partitionStructured [f0] [c0] = .ok (axisIdx f0 c0) := by
  simp [partitionStructured, axisBad_false h0.1 h0.2]

theorem ps2 {f0 f1 c0 c1 : Nat} (h0 : 1 ≤ c0 ∧ c0 ≤ f0) (h1 : 1 ≤ c1 ∧ c1 ≤ f1) :
    partitionStructured [f0, f1] [c0, c1] = .ok (combine2 (axisIdx f0 c0) (axisIdx f1 c1) c0) := by
  simp [partitionStructured, axisBad_false h0.1 h0.2, axisBad_false h1.1 h1.2]

theorem ps3 {f0 f1 f2 c0 c1 c2 : Nat} (h0 : 1 ≤ c0 ∧ c0 ≤ f0) (h1 : 1 ≤ c1 ∧ c1 ≤ f1)
    (h2 : 1 ≤ c2 ∧ c2 ≤ f2) :
    partitionStructured [f0, f1, f2] [c0, c1, c2]
      = .ok (combine3 (axisIdx f0 c0) (axisIdx f1 c1) (axisIdx f2 c2) c0 c1) := by
  simp [partitionStructured, axisBad_false h0.1 h0.2, axisBad_false h1.1 h1.2, axisBad_false h2.1 h2.2]

/-- `partition_structured` answers only for 1, 2 or 3 axes -/
theorem ps_cases {fine coarse : List Nat} {p : List Int} (h : partitionStructured fine coarse = .ok p) :
    (∃ f0 c0, fine = [f0] ∧ coarse = [c0]) ∨
    (∃ f0 f1 c0 c1, fine = [f0, f1] ∧ coarse = [c0, c1]) ∨
    (∃ f0 f1 f2 c0 c1 c2, fine = [f0, f1, f2] ∧ coarse = [c0, c1, c2]) := by
  unfold partitionStructured at h
  split at h
  · exact Or.inl ⟨_, _, rfl, rfl⟩
  · exact Or.inr (Or.inl ⟨_, _, _, _, rfl, rfl⟩)
  · exact Or.inr (Or.inr ⟨_, _, _, _, _, _, rfl, rfl⟩)
  · cases h

theorem getD_map_range {β : Type} (g : Nat → β) (d : β) {n i : Nat} (hi : i < n) :
    ((List.range n).map g).getD i d = g i := by
  simp [List.getD_eq_getElem?_getD, hi]

theorem axisIdx_getD {f c i : Nat} (hc : 1 ≤ c) (hcf : c ≤ f) (hi : i < f) (d : Int) :
    (axisIdx f c).getD i d = ((axisSpec f c i : Nat) : Int) := by
  rw [axisIdx_closed hc hcf, getD_map_range _ _ hi]

/-- every number below `a·b` has two mixed-radix digits -/
theorem digits2 {a b q : Nat} (hq : q < a * b) : q % a < a ∧ q / a < b ∧ q = q % a + q / a * a := by
  have ha : 0 < a := by
    rcases Nat.eq_zero_or_pos a with h | h
    · subst h; simp at hq
    · exact h
  refine ⟨Nat.mod_lt _ ha, (Nat.div_lt_iff_lt_mul ha).mpr (by rw [Nat.mul_comm]; exact hq), ?_⟩
  have := Nat.mod_add_div q a
  rw [Nat.mul_comm] at this
  omega

theorem getD_map' {α β : Type} (g : α → β) (l : List α) {i : Nat} (hi : i < l.length) (d : β) (d' : α) :
    (l.map g).getD i d = g (l.getD i d') := by
  simp [List.getD_eq_getElem?_getD, List.getElem?_eq_getElem hi]

theorem length_pairs {α β : Type} (zs : List α) (ys : List β) :
    (zs.flatMap (fun z => ys.map (fun y => (z, y)))).length = ys.length * zs.length := by
  induction zs with
  | nil => simp
  | cons z zs ih => simp only [List.flatMap_cons, List.length_append, List.length_map, ih, List.length_cons,
      Nat.mul_succ]; omega

theorem length_flatMap_const {α β : Type} (F : α → List β) (n : Nat) (zs : List α)
    (h : ∀ z ∈ zs, (F z).length = n) : (zs.flatMap F).length = n * zs.length := by
  induction zs with
  | nil => simp
  | cons z zs ih =>
    simp only [List.flatMap_cons, List.length_append, List.length_cons, Nat.mul_succ,
      h z List.mem_cons_self, ih (fun z hz => h z (List.mem_cons_of_mem _ hz))]
    omega

theorem axisSpec_zero (f c : Nat) : axisSpec f c 0 = 0 := by simp [axisSpec]

theorem axisSpec_last {f c : Nat} (hc : 1 ≤ c) (hcf : c ≤ f) : axisSpec f c (f - 1) = c - 1 := by
  have hs : 0 < f / c := Nat.div_pos hcf (by omega)
  have h1 : c - 1 ≤ (f - 1) / (f / c) := by
    rw [Nat.le_div_iff_mul_le hs]
    have h2 : c * (f / c) ≤ f := by rw [Nat.mul_comm]; exact Nat.div_mul_le_self f c
    have h3 : c * (f / c) = (c - 1) * (f / c) + f / c := by
      have h4 : ((c - 1) + 1) * (f / c) = (c - 1) * (f / c) + f / c := Nat.succ_mul _ _
      have h5 : (c - 1) + 1 = c := by omega
      rw [h5] at h4
      exact h4
    omega
  unfold axisSpec
  omega

end PorepyVerif.C22
