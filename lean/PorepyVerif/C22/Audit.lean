import PorepyVerif.C22.Props
#print axioms PorepyVerif.C22.extract_maps_point_to_parent
#print axioms PorepyVerif.C22.extract_cells_order
#print axioms PorepyVerif.C22.extract_faces_maps_point_to_parent
#print axioms PorepyVerif.C22.partition_grid_cells_once
#print axioms PorepyVerif.C22.axis_index_closed_form
#print axioms PorepyVerif.C22.partition_structured_cell
#print axioms PorepyVerif.C22.partition_structured_in_range
#print axioms PorepyVerif.C22.partition_structured_total
#print axioms PorepyVerif.C22.partition_structured_monotone
#print axioms PorepyVerif.C22.overlap_zero_id
#print axioms PorepyVerif.C22.overlap_monotone
#print axioms PorepyVerif.C22.overlap_contains_neighbours
#print axioms PorepyVerif.C22.overlap_layer_exact
