/- C22 line-protocol driver: `lake env lean --run PorepyVerif/C22/Driver.lean` -/
import PorepyVerif.Common.Wire
import PorepyVerif.C22.Model
open Lean PV PorepyVerif.C22

def errJson (e : Err) : Json :=
  match e with
  | .index => err "IndexError"
  | .value => err "ValueError"
  | .assertion => err "AssertionError"

def fTopo (j : Json) : R Topo := do
  pure { cfFaces := ← fNatss j "cf_faces", cfSigns := ← fIntss j "cf_signs", fn := ← fNatss j "fn" }

def ofNatss (l : List (List Nat)) : Json := ofList ofNats l
def ofIntss (l : List (List Int)) : Json := ofList ofInts l

def subJson (r : Except Err Sub) : Json :=
  match r with
  | .error e => errJson e
  | .ok s => obj [("cells", ofNats s.cells), ("face_map", ofNats s.faceMap), ("node_map", ofNats s.nodeMap),
                  ("cf_faces", ofNatss s.cfFaces), ("cf_signs", ofIntss s.cfSigns), ("fn", ofNatss s.fn)]

def faceSubJson (r : Except Err FaceSub) : Json :=
  match r with
  | .error e => errJson e
  | .ok s => obj [("faces", ofNats s.faces), ("node_map", ofNats s.nodeMap),
                  ("cf_faces", ofNatss s.cfFaces), ("cf_signs", ofIntss s.cfSigns), ("fn", ofNatss s.fn)]

def step (j : Json) : R Json := do
  let op ← fStr j "op"
  match op with
  | "extract" =>
    let g ← fTopo j
    pure (subJson (extract g (← fNats j "cells") (← fBool j "sort")))
  | "extract_mask" =>
    let g ← fTopo j
    let mask ← field j "mask" >>= jList jBool
    pure (subJson (extractMask g mask (← fBool j "sort")))
  | "extract_faces" =>
    let fn ← fNatss j "fn"
    let f ← fNats j "faces"
    let dim ← fNat j "dim"
    let f := if (← fBool j "sort") then isort f else f
    match dim with
    | 3 => pure (faceSubJson (extractFaces3 fn f))
    | 2 => pure (faceSubJson (extractFaces2 fn f))
    | 1 => match extractFaces1 fn f with
           | .error e => pure (errJson e)
           | .ok nodes => pure (obj [("faces", ofNats f), ("node_map", ofNats nodes)])
    | _ => throw "dim"
  | "pgrid" =>
    let g ← fTopo j
    pure (ofList subJson (partitionGrid g (← fNats j "ind")))
  | "pstruct" =>
    let fine ← fNats j "fine"
    let coarse ← fNats j "coarse"
    match partitionStructured fine coarse with
    | .error e => pure (obj [("hyp", .bool (dimsOkB fine coarse)), ("err", (match e with | .index => "IndexError" | .value => "ValueError" | .assertion => "AssertionError"))])
    | .ok p => pure (obj [("hyp", .bool (dimsOkB fine coarse)), ("part", ofInts p)])
  | "dcd" =>
    match dcd exactRoot (← fNat j "target") (← fNats j "fine") with
    | .error e => pure (errJson e)
    | .ok c => pure (obj [("coarse", ofNats c)])
  | "pcoord" =>
    let los ← fRats j "lo"
    let his ← fRats j "hi"
    let cs ← match dcd exactRoot (← fNat j "num") (← fNats j "delta_int") with
      | .ok c => pure c
      | .error _ => throw "dcd"
    let axes := (los.zip (his.zip cs)).map (fun t => ({ lo := t.1, hi := t.2.1, c := t.2.2 } : Axis))
    let centers ← fRatss j "cc"
    let margin := centers.foldl (fun m x =>
      (axes.zip x).foldl (fun m ax => let d := axisMargin ax.1 ax.2; if d < m then d else m) m) (1 : Rat)
    match pcoord axes centers with
    | .error e => pure (obj [("coarse", ofNats cs), ("margin", ofRat margin), ("hyp", .bool (centers.all (allOkB axes))), ("res", errJson e)])
    | .ok p => pure (obj [("coarse", ofNats cs), ("margin", ofRat margin), ("hyp", .bool (centers.all (allOkB axes))), ("res", obj [("part", ofInts p)])])
  | "s2g" =>
    match subgridToGrid (← fNat j "num_faces") (← fNat j "num_cells") (← fNats j "loc_faces") (← fNats j "loc_cells") (← fNat j "nd") with
    | .error e => pure (errJson e)
    | .ok r => pure (obj [("face_rows", ofNats r.1), ("cell_cols", ofNats r.2)])
  | "pwrap" =>
    match partitionWrapperTensor (← fNat j "num") (← fNats j "fine") with
    | .error e => pure (errJson e)
    | .ok p => pure (obj [("part", ofInts p)])
  | "overlap" =>
    match overlap (← fNatss j "ce") (← fNats j "cells") (← fNat j "layers") with
    | .error e => pure (errJson e)
    | .ok p => pure (obj [("cells", ofNats p)])
  | _ => throw s!"unknown op {op}"

def main : IO Unit := runPure step
