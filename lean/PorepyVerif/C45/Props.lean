/-
C45 — property theorems (statements only depend on Model.lean; proofs use Lemmas.lean).

Property: two AD operators built as structurally identical trees over the same leaf data and domains
have equal keys (and hashes: the hash is `hash(key)`), and operators whose trees or leaf data differ
(including projections that differ only in the domain size) have different keys.

`key Cfg.repaired` is the key as the property demands it; it is what the code builds once the repairs
`fixes/C45-*.diff` are applied.  The `*_collides` theorems show that each single repair is necessary:
with any one of them missing (in particular in the pinned code, `Cfg.original`) different trees share a key.
-/
import PorepyVerif.C45.Lemmas

namespace PorepyVerif.C45

/-- Equal trees have equal keys, whatever the configuration (the key is a function of the tree). -/
theorem key_congr (c : Cfg) (t1 t2 : Tree) (h : t1 = t2) : key c t1 = key c t2 := by rw [h]

/-- Unique readability: the repaired key is a prefix code — a key followed by any tokens can be read
    back in one way only.  This is what makes `" ".join` of children keys unambiguous, for every arity. -/
theorem key_prefix_code (t1 t2 : Tree) (r1 r2 : List Tok)
    (h : key .repaired t1 ++ r1 = key .repaired t2 ++ r2) : t1 = t2 ∧ r1 = r2 :=
  key_prefix t1 t2 r1 r2 h

/-- Headline: different trees (operation, order and number of children, any identifying datum of any leaf)
    have different keys. -/
theorem key_injective (t1 t2 : Tree) (h : key .repaired t1 = key .repaired t2) : t1 = t2 := by
  have := key_prefix t1 t2 [] [] (by simpa using h)
  exact this.1

/-- keys identify trees -/
theorem key_eq_iff (t1 t2 : Tree) : key .repaired t1 = key .repaired t2 ↔ t1 = t2 :=
  ⟨key_injective t1 t2, key_congr _ t1 t2⟩

/-- no key is a proper prefix of another key -/
theorem key_not_proper_prefix (t1 t2 : Tree) (r : List Tok)
    (h : key .repaired t1 ++ r = key .repaired t2) : t1 = t2 ∧ r = [] := by
  have := key_prefix t1 t2 r [] (by simpa using h)
  exact this

/-- the same for the keys of the leaf classes alone -/
theorem leafKey_injective (l1 l2 : Leaf) (h : leafKey .repaired l1 = leafKey .repaired l2) : l1 = l2 :=
  (leafKey_prefix l1 l2 [] [] (by simpa using h)).1

/-! ### each repair is necessary: collisions of the key with one repair missing

The witnesses are the minimised pairs of `corpus/C45/` (names and digests shortened). -/

private def v (ts it : Int) : Tree := .leaf (.var "p" .subdomains 0 ts it)
private def pr (dom : String) (domLen dsize : Nat) : Proj := ⟨"r", 3, dom, domLen, dsize, 3, false⟩

/-- F10(1) projections that differ only in the domain size: `domain_size=` printed the domain indices -/
theorem domain_size_collides :
    ∃ t1 t2 : Tree, t1 ≠ t2 ∧ key { Cfg.repaired with domSize := false } t1 = key { Cfg.repaired with domSize := false } t2 :=
  ⟨.leaf (.proj (pr "d" 3 5)), .leaf (.proj (pr "d" 3 7)), by decide, by decide⟩

/-- F10(2) numpy abbreviates the string of an array with more than 1000 entries: two index arrays that
    differ in the middle have the same string, hence the same digest token in the unrepaired key -/
theorem abbreviated_indices_collide :
    ∃ l1 l2 : List Nat, l1 ≠ l2 ∧ npSummary 1000 3 l1 = npSummary 1000 3 l2 :=
  ⟨List.range 1001, (List.range 1001).set 500 0, by decide +kernel, by decide +kernel⟩

/-- F10(3) `exp(p)` and `log(p)`: no function identity in the key -/
theorem evaluate_function_collides :
    ∃ t1 t2 : Tree, t1 ≠ t2 ∧ key { Cfg.repaired with evalFn := false } t1 = key { Cfg.repaired with evalFn := false } t2 :=
  ⟨.eval "exp" 1 (.cons (v (-1) (-1)) .nil), .eval "log" 2 (.cons (v (-1) (-1)) .nil), by decide, by decide⟩

/-- F10(3b) `f(g(a), b)` and `f(g(a, b))`: no arity in the key, the blank-joined children are ambiguous -/
theorem evaluate_arity_collides :
    ∃ t1 t2 : Tree, t1 ≠ t2 ∧ key { Cfg.repaired with evalFn := false } t1 = key { Cfg.repaired with evalFn := false } t2 :=
  ⟨.eval "f" 1 (.cons (.eval "f" 1 (.cons (v (-1) (-1)) .nil)) (.cons (v 0 (-1)) .nil)),
   .eval "f" 1 (.cons (.eval "f" 1 (.cons (v (-1) (-1)) (.cons (v 0 (-1)) .nil))) .nil), by decide, by decide⟩

/-- F10(4) `p` and `p.previous_timestep()` / `p.previous_iteration()` -/
theorem time_index_collides :
    ∃ t1 t2 t3 : Tree, t1 ≠ t2 ∧ t1 ≠ t3 ∧ t2 ≠ t3 ∧
      key { Cfg.repaired with timeIdx := false } t1 = key { Cfg.repaired with timeIdx := false } t2 ∧
      key { Cfg.repaired with timeIdx := false } t1 = key { Cfg.repaired with timeIdx := false } t3 :=
  ⟨v (-1) (-1), v 0 (-1), v (-1) 0, by decide, by decide, by decide, by decide, by decide⟩

/-- projection lists were keyed by the `repr` of the members (sizes only) -/
theorem projection_list_collides :
    ∃ t1 t2 : Tree, t1 ≠ t2 ∧ key { Cfg.repaired with plistKeys := false } t1 = key { Cfg.repaired with plistKeys := false } t2 :=
  ⟨.leaf (.plist [pr "d01" 2 4, pr "d23" 2 4]), .leaf (.plist [pr "d02" 2 4, pr "d13" 2 4]), by decide, by decide⟩

/-- subdomain 0 and interface 0 (grid ids are unique per grid class only) -/
theorem domain_type_collides :
    ∃ t1 t2 : Tree, t1 ≠ t2 ∧ key { Cfg.repaired with domType := false } t1 = key { Cfg.repaired with domType := false } t2 :=
  ⟨.leaf (.tdda "t" .subdomains [0] (-1)), .leaf (.tdda "t" .interfaces [0] (-1)), by decide, by decide⟩

/-- dense arrays with the same bytes and different shapes -/
theorem dense_shape_collides :
    ∃ t1 t2 : Tree, t1 ≠ t2 ∧ key { Cfg.repaired with denseShape := false } t1 = key { Cfg.repaired with denseShape := false } t2 :=
  ⟨.leaf (.dense [6] "h"), .leaf (.dense [2, 3] "h"), by decide, by decide⟩

/-- all of them are collisions of the pinned code -/
theorem original_not_injective : ¬ ∀ t1 t2 : Tree, key .original t1 = key .original t2 → t1 = t2 := by
  intro h
  have := h (v (-1) (-1)) (v 0 (-1)) (by decide)
  exact absurd this (by decide)

/-! ### non-vacuity: concrete keys, rendered exactly as the (repaired) code prints them -/

example : render (key .repaired (.bin .mul (.leaf (.scalar 2)) (v 0 (-1)))) =
    "mul (scalar, 2.0) (var, name=p, domain_type=subdomains, domain=0, time_step_index=0, iterate_index=-1)" := by
  decide +kernel

example : render (key .repaired (.eval "exp" 7 (.cons (v (-1) (-1)) .nil))) =
    "evaluate (function, name=exp, id=7) nargs=1 (var, name=p, domain_type=subdomains, domain=0, time_step_index=-1, iterate_index=-1)" := by
  decide +kernel

example : key .repaired (.bin .sub (v (-1) (-1)) (v 0 (-1))) ≠ key .repaired (.bin .sub (v 0 (-1)) (v (-1) (-1))) := by
  decide

example : key .repaired (.leaf (.proj (pr "d" 3 5))) ≠ key .repaired (.leaf (.proj (pr "d" 3 7))) := by decide

end PorepyVerif.C45
