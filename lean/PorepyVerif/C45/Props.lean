/-
C45 — property theorems (statements only depend on Model.lean; proofs use Lemmas.lean).

Property: two AD operators built as structurally identical trees over the same leaf data and domains
have equal keys (and hashes: `__hash__` is `hash(self._key())`), and operators whose trees or leaf data
differ (including projections that differ only in the domain size) have different keys.

`key Cfg.repaired` is the lexed key as the property demands it (what the code builds once all repairs
`fixes/C45-*.diff` are applied); `render` is the key string.  Token level: `key_prefix_code`,
`key_injective`.  String level: `lex_render` (the decoder reads the tokens back from the string),
`keyString_injective`.  The `*_collides` theorems show that each single repair is necessary.
-/
import PorepyVerif.C45.Lemmas

namespace PorepyVerif.C45

/-- Equal trees have equal keys, whatever the configuration (the key is a function of the tree). -/
theorem key_congr (c : Cfg) (t1 t2 : Tree) (h : t1 = t2) : key c t1 = key c t2 := by rw [h]

/-- Unique readability: the repaired key is a prefix code — a key followed by any tokens can be read
    back in one way only.  This is what makes `" ".join` of children keys unambiguous, for every arity. -/
theorem key_prefix_code (t1 t2 : Tree) (r1 r2 : List Tok)
    (h : key .repaired t1 ++ r1 = key .repaired t2 ++ r2) : t1 = t2 ∧ r1 = r2 :=
  key_prefix t1 t2 r1 r2 h

/-- Different trees (operation, order and number of children, any identifying datum of any leaf)
    have different token keys. -/
theorem key_injective (t1 t2 : Tree) (h : key .repaired t1 = key .repaired t2) : t1 = t2 := by
  have := key_prefix t1 t2 [] [] (by simpa using h)
  exact this.1

/-- keys identify trees -/
theorem key_eq_iff (t1 t2 : Tree) : key .repaired t1 = key .repaired t2 ↔ t1 = t2 :=
  ⟨key_injective t1 t2, key_congr _ t1 t2⟩

/-- no key is a proper prefix of another key -/
theorem key_not_proper_prefix (t1 t2 : Tree) (r : List Tok)
    (h : key .repaired t1 ++ r = key .repaired t2) : t1 = t2 ∧ r = [] := by
  have := key_prefix t1 t2 r [] (by simpa using h)
  exact this

/-- the same for the keys of the leaf classes alone -/
theorem leafKey_injective (l1 l2 : Leaf) (h : leafKey .repaired l1 = leafKey .repaired l2) : l1 = l2 :=
  (leafKey_prefix l1 l2 [] [] (by simpa using h)).1

/-! ### from tokens to the actual strings -/

/-- The decoder reads every well-formed token list back from its string: rendering loses nothing.
    (`wfList`: values contain none of `,` `)` blank `]`, a value is followed by a delimiter, the member
    separator by a member.) -/
theorem lex_render (ts : List Tok) (h : wfList ts = true) : lex (render ts).toList = some ts := by
  simp [render, lex_renderL ts h]

/-- `render` is injective on well-formed token lists. -/
theorem render_injective (a b : List Tok) (ha : wfList a = true) (hb : wfList b = true)
    (h : render a = render b) : a = b := by
  have : renderL a = renderL b := by simpa [render] using congrArg String.toList h
  exact renderL_injective a b ha hb this

/-- keys of well-formed trees (names, digests without delimiter characters) are well-formed token lists -/
theorem key_wellformed (t : Tree) (h : wfTree t = true) : wfList (key .repaired t) = true := wfList_key t h

/-- Headline, string level: well-formed trees with the same key STRING are the same tree. -/
theorem keyString_injective (t1 t2 : Tree) (h1 : wfTree t1 = true) (h2 : wfTree t2 = true)
    (h : render (key .repaired t1) = render (key .repaired t2)) : t1 = t2 :=
  key_injective t1 t2 (render_injective _ _ (wfList_key t1 h1) (wfList_key t2 h2) h)

theorem keyString_eq_iff (t1 t2 : Tree) (h1 : wfTree t1 = true) (h2 : wfTree t2 = true) :
    render (key .repaired t1) = render (key .repaired t2) ↔ t1 = t2 :=
  ⟨keyString_injective t1 t2 h1 h2, fun h => by rw [h]⟩

/-! ### hashes: `Operator.__hash__` is `hash(self._key())` -/

/-- the hash of an operator, for any string hash function `H` -/
def opHash (H : String → UInt64) (c : Cfg) (t : Tree) : UInt64 := H (render (key c t))

/-- equal trees have equal hashes; different hashes mean different key strings -/
theorem hash_congr (H : String → UInt64) (c : Cfg) (t1 t2 : Tree) (h : t1 = t2) : opHash H c t1 = opHash H c t2 := by
  rw [h]

theorem key_ne_of_hash_ne (H : String → UInt64) (c : Cfg) (t1 t2 : Tree) (h : opHash H c t1 ≠ opHash H c t2) :
    render (key c t1) ≠ render (key c t2) := fun he => h (by simp [opHash, he])

/-- apart from collisions of `H` itself, equal hashes mean equal trees -/
theorem hash_eq_iff (H : String → UInt64) (t1 t2 : Tree) (h1 : wfTree t1 = true) (h2 : wfTree t2 = true)
    (hH : H (render (key .repaired t1)) = H (render (key .repaired t2)) →
      render (key .repaired t1) = render (key .repaired t2)) :
    opHash H .repaired t1 = opHash H .repaired t2 ↔ t1 = t2 :=
  ⟨fun h => keyString_injective t1 t2 h1 h2 (hH h), hash_congr H _ t1 t2⟩

/-! ### the clause "projections that differ only in the domain size" -/

theorem projection_domain_size_distinct (p1 p2 : Proj) (h : p1.dsize ≠ p2.dsize) :
    key .repaired (.leaf (.proj p1)) ≠ key .repaired (.leaf (.proj p2)) := by
  intro he
  have := key_injective _ _ he
  simp only [Tree.leaf.injEq, Leaf.proj.injEq] at this
  exact h (by rw [this])

/-- … also as strings -/
theorem projection_domain_size_distinct_string (p1 p2 : Proj) (h1 : wfProj p1 = true) (h2 : wfProj p2 = true)
    (h : p1.dsize ≠ p2.dsize) :
    render (key .repaired (.leaf (.proj p1))) ≠ render (key .repaired (.leaf (.proj p2))) := by
  intro he
  have := keyString_injective _ _ (by simpa [wfTree, wfLeaf] using h1) (by simpa [wfTree, wfLeaf] using h2) he
  simp only [Tree.leaf.injEq, Leaf.proj.injEq] at this
  exact h (by rw [this])

example : key .repaired (.leaf (.proj ⟨cl!"r", cl!"d", 5, 3, false⟩)) ≠ key .repaired (.leaf (.proj ⟨cl!"r", cl!"d", 7, 3, false⟩)) :=
  projection_domain_size_distinct _ _ (by decide)

/-! ### previous_timestep / previous_iteration and the cached key -/

/-- shifting a tree that contains a leaf reacting to the shift changes its key
    (`p` vs `p.previous_timestep()`, any number of steps, anywhere in the tree) -/
theorem shift_changes_key (time : Bool) (k : Nat) (t t' : Tree) (h : shiftTree time k t = some t')
    (hd : t.dependsOn time = true) : key .repaired t' ≠ key .repaired t :=
  fun he => shiftTree_ne time k t t' h hd (key_injective _ _ he)

/-- … and leaves every other tree, hence its key, unchanged -/
theorem shift_keeps_independent (time : Bool) (k : Nat) (t : Tree) (hd : t.dependsOn time = false) :
    shiftTree time k t = some t := shiftTree_nodep time k t hd

/-- Cached keys: with the resets in `previous_timestep` / `previous_iteration` /
    `_get_previous_time_or_iterate` and in `Scalar.set_value`, EVERY history of `_key()`, shift and
    `set_value` calls on a fresh operator observes exactly the keys of the trees it represents at the time
    (and raises exactly when the shift of the tree is illegal). -/
theorem history_keys_correct (c : Cfg) (t : Tree) (hs : List HOp) :
    (Obj.run c ⟨true, true⟩ ⟨t, none⟩ hs).map (·.2) = (specRun c t hs).map (·.2) := by
  have := run_refines c hs ⟨t, none⟩ (Or.inl rfl)
  cases hr : Obj.run c ⟨true, true⟩ ⟨t, none⟩ hs <;> cases hsr : specRun c t hs <;> simp [hr, hsr] at this ⊢
  exact this.2.1

private def pv : Tree := .leaf (.var cl!"p" .subdomains 0 (-1) (-1))

example : (Obj.run .repaired ⟨true, true⟩ ⟨pv, none⟩ [.key, .shift true 1, .key, .shift true 2, .key]).map (·.2) =
    some [key .repaired pv, key .repaired (.leaf (.var cl!"p" .subdomains 0 0 (-1))),
          key .repaired (.leaf (.var cl!"p" .subdomains 0 2 (-1)))] := by decide

/-- without the reset in the shift (`copy.copy` keeps `_cached_key`; the defect re-introduced by a seeded
    change) "hash x, then x.previous_timestep()" observes the key of `x` for the shifted operator -/
theorem stale_key_without_shift_reset :
    (Obj.run .repaired ⟨false, true⟩ ⟨pv, none⟩ [.key, .shift true 1, .key]).map (·.2) ≠
      (specRun .repaired pv [.key, .shift true 1, .key]).map (·.2) := by decide

/-- without the reset in `Scalar.set_value` (open finding `stale-key:scalar-set-value`) -/
theorem stale_key_without_set_reset :
    (Obj.run .repaired ⟨true, false⟩ ⟨.leaf (.scalar cl!"1.0"), none⟩ [.key, .set cl!"2.0", .key]).map (·.2) ≠
      (specRun .repaired (.leaf (.scalar cl!"1.0")) [.key, .set cl!"2.0", .key]).map (·.2) := by decide

/-- a time shift of an operator at a previous iterate raises -/
example : shiftTree true 1 (.leaf (.var cl!"p" .subdomains 0 (-1) 0)) = none := by decide

/-! ### each repair is necessary: collisions of the key with one repair missing

The witnesses are the minimised pairs of `corpus/C45/` (names and digests shortened). -/

private def v (ts it : Int) : Tree := .leaf (.var cl!"p" .subdomains 0 ts it)
private def pr (dom : Str) (dsize : Nat) : Proj := ⟨cl!"r", dom, dsize, 3, false⟩

/-- F10(1) projections that differ only in the domain size: `domain_size=` printed the domain indices -/
theorem domain_size_collides :
    ∃ t1 t2 : Tree, t1 ≠ t2 ∧ key { Cfg.repaired with domSize := false } t1 = key { Cfg.repaired with domSize := false } t2 :=
  ⟨.leaf (.proj (pr cl!"d" 5)), .leaf (.proj (pr cl!"d" 7)), by decide, by decide⟩

/-- F10(2) numpy abbreviates the string of an array with more than 1000 entries: two index arrays that
    differ in the middle have the same string, hence the same digest token in the unrepaired key -/
theorem abbreviated_indices_collide :
    ∃ l1 l2 : List Nat, l1 ≠ l2 ∧ npSummary 1000 3 l1 = npSummary 1000 3 l2 :=
  ⟨List.range 1001, (List.range 1001).set 500 0, by decide +kernel, by decide +kernel⟩

/-- F10(3) `exp(p)` and `log(p)`: no function identity in the key -/
theorem evaluate_function_collides :
    ∃ t1 t2 : Tree, t1 ≠ t2 ∧ key { Cfg.repaired with evalFn := false } t1 = key { Cfg.repaired with evalFn := false } t2 :=
  ⟨.eval cl!"exp" (some 1) (.cons (v (-1) (-1)) .nil), .eval cl!"log" (some 2) (.cons (v (-1) (-1)) .nil),
   by decide, by decide⟩

/-- … in particular two surrogate operators (`SurrogateOperator` uses the base-class key) with different
    names and the same dependencies -/
theorem surrogate_name_collides :
    ∃ t1 t2 : Tree, t1 ≠ t2 ∧ key { Cfg.repaired with evalFn := false } t1 = key { Cfg.repaired with evalFn := false } t2 :=
  ⟨.eval cl!"rho" none (.cons (v (-1) (-1)) .nil), .eval cl!"mu" none (.cons (v (-1) (-1)) .nil), by decide, by decide⟩

/-- F10(3b) `f(g(a), b)` and `f(g(a, b))`: no arity in the key, the blank-joined children are ambiguous -/
theorem evaluate_arity_collides :
    ∃ t1 t2 : Tree, t1 ≠ t2 ∧ key { Cfg.repaired with evalArity := false } t1 = key { Cfg.repaired with evalArity := false } t2 :=
  ⟨.eval cl!"f" (some 1) (.cons (.eval cl!"f" (some 1) (.cons (v (-1) (-1)) .nil)) (.cons (v 0 (-1)) .nil)),
   .eval cl!"f" (some 1) (.cons (.eval cl!"f" (some 1) (.cons (v (-1) (-1)) (.cons (v 0 (-1)) .nil))) .nil),
   by decide, by decide⟩

/-- F10(4) `p` and `p.previous_timestep()` / `p.previous_iteration()` -/
theorem time_index_collides :
    ∃ t1 t2 t3 : Tree, t1 ≠ t2 ∧ t1 ≠ t3 ∧ t2 ≠ t3 ∧
      key { Cfg.repaired with timeIdx := false } t1 = key { Cfg.repaired with timeIdx := false } t2 ∧
      key { Cfg.repaired with timeIdx := false } t1 = key { Cfg.repaired with timeIdx := false } t3 :=
  ⟨v (-1) (-1), v 0 (-1), v (-1) 0, by decide, by decide, by decide, by decide, by decide⟩

/-- projection lists were keyed by the `repr` of the members (sizes only) -/
theorem projection_list_collides :
    ∃ t1 t2 : Tree, t1 ≠ t2 ∧ key { Cfg.repaired with plistKeys := false } t1 = key { Cfg.repaired with plistKeys := false } t2 :=
  ⟨.leaf (.plist [pr cl!"d01" 4, pr cl!"d23" 4]), .leaf (.plist [pr cl!"d02" 4, pr cl!"d13" 4]), by decide, by decide⟩

/-- subdomain 0 and interface 0 (grid ids are unique per grid class only) -/
theorem domain_type_collides :
    ∃ t1 t2 : Tree, t1 ≠ t2 ∧ key { Cfg.repaired with domType := false } t1 = key { Cfg.repaired with domType := false } t2 :=
  ⟨.leaf (.tdda cl!"t" .subdomains [0] (-1)), .leaf (.tdda cl!"t" .interfaces [0] (-1)), by decide, by decide⟩

/-- the same for merged discretization operators (`MergedOperator._key`) -/
theorem merged_domain_type_collides :
    ∃ t1 t2 : Tree, t1 ≠ t2 ∧
      key { Cfg.repaired with mergedDomType := false } t1 = key { Cfg.repaired with mergedDomType := false } t2 :=
  ⟨.leaf (.merged cl!"D" .subdomains [0] cl!"flux" cl!"flow" none),
   .leaf (.merged cl!"D" .interfaces [0] cl!"flux" cl!"flow" none), by decide, by decide⟩

/-- dense arrays with the same bytes and different shapes -/
theorem dense_shape_collides :
    ∃ t1 t2 : Tree, t1 ≠ t2 ∧ key { Cfg.repaired with denseShape := false } t1 = key { Cfg.repaired with denseShape := false } t2 :=
  ⟨.leaf (.dense [6] cl!"h"), .leaf (.dense [2, 3] cl!"h"), by decide, by decide⟩

/-- all of them are collisions of the pinned code -/
theorem original_not_injective : ¬ ∀ t1 t2 : Tree, key .original t1 = key .original t2 → t1 = t2 := by
  intro h
  have := h (v (-1) (-1)) (v 0 (-1)) (by decide)
  exact absurd this (by decide)

/-- a value with delimiter characters defeats the string (not the tokens): the hypothesis of
    `keyString_injective` is necessary.  `add (scalar, 1) add (scalar, 2) (scalar, 3)` read in two ways. -/
theorem delimiter_in_value_collides :
    ∃ t1 t2 : Tree, t1 ≠ t2 ∧ render (key .repaired t1) = render (key .repaired t2) :=
  ⟨.bin .add (.leaf (.scalar cl!"1")) (.bin .add (.leaf (.scalar cl!"2")) (.leaf (.scalar cl!"3"))),
   .bin .add (.leaf (.scalar cl!"1) add (scalar, 2")) (.leaf (.scalar cl!"3")), by decide, by decide +kernel⟩

/-! ### non-vacuity: concrete keys, rendered exactly as the (repaired) code prints them -/

example : render (key .repaired (.bin .mul (.leaf (.scalar cl!"2.0")) (v 0 (-1)))) =
    "mul (scalar, 2.0) (var, name=p, domain_type=subdomains, domain=0, time_step_index=0, iterate_index=-1)" := by
  decide +kernel

example : render (key .repaired (.eval cl!"exp" (some 7) (.cons (v (-1) (-1)) .nil))) =
    "evaluate (function, name=exp, id=7) nargs=1 (var, name=p, domain_type=subdomains, domain=0, time_step_index=-1, iterate_index=-1)" := by
  decide +kernel

example : wfTree (.bin .mul (.leaf (.scalar cl!"2.0")) (.leaf (.merged cl!"Mpfa" .subdomains [0, 1] cl!"flux" cl!"flow" (some cl!"x")))) = true := by
  decide

example : lex (renderL (key .repaired (.bin .mul (.leaf (.sparse cl!"csr_matrix" 2 30 cl!"ab")) (.leaf (.plist [pr cl!"d" 4, pr cl!"e" 5]))))) =
    some (key .repaired (.bin .mul (.leaf (.sparse cl!"csr_matrix" 2 30 cl!"ab")) (.leaf (.plist [pr cl!"d" 4, pr cl!"e" 5])))) := by
  decide +kernel

example : key .repaired (.bin .sub (v (-1) (-1)) (v 0 (-1))) ≠ key .repaired (.bin .sub (v 0 (-1)) (v (-1) (-1))) := by
  decide

example : key .repaired (.leaf (.proj (pr cl!"d" 5))) ≠ key .repaired (.leaf (.proj (pr cl!"d" 7))) := by decide

end PorepyVerif.C45
