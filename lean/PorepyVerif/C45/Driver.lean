/- C45 line-protocol driver: `lake env lean --run PorepyVerif/C45/Driver.lean`

   {"op":"keys","cfg":{…seven flags…},"trees":[T,…]}  →
   {"keys":[rendered key strings], "eq":[[i,j],…] pairs i<j with equal token lists,
    "wf":[well-formedness of tree i and of its token list], "lex":[lex (render key_i) = some key_i]} -/
import PorepyVerif.Common.Wire
import PorepyVerif.C45.Model
open Lean PV PorepyVerif.C45

def parseOp (s : String) : R BinOp :=
  match s with
  | "add" => pure .add | "sub" => pure .sub | "mul" => pure .mul | "div" => pure .div
  | "pow" => pure .pow | "matmul" => pure .matmul
  | _ => throw s!"unknown operation {s}"

def parseDt (s : String) : R DomType :=
  match s with
  | "subdomains" => pure .subdomains | "interfaces" => pure .interfaces | "boundary" => pure .boundary
  | _ => throw s!"unknown domain type {s}"

def fChars (j : Json) (k : String) : R Str := do pure (← fStr j k).toList

def parseProj (j : Json) : R Proj := do
  pure ⟨← fChars j "rng", ← fChars j "dom", ← fNat j "dsize", ← fNat j "rsize", ← fBool j "tr"⟩

mutual
partial def parseTree (j : Json) : R Tree := do
  let k ← fStr j "k"
  match k with
  | "var" => pure (.leaf (.var (← fChars j "name") (← parseDt (← fStr j "dt")) (← fNat j "dom") (← fInt j "ts") (← fInt j "it")))
  | "mdvar" => pure (.leaf (.mdvar (← fChars j "name") (← parseDt (← fStr j "dt")) (← fNats j "doms") (← fInt j "ts") (← fInt j "it")))
  | "tdda" => pure (.leaf (.tdda (← fChars j "name") (← parseDt (← fStr j "dt")) (← fNats j "doms") (← fInt j "ts")))
  | "scalar" => pure (.leaf (.scalar (← fChars j "repr")))
  | "dense" => pure (.leaf (.dense (← fNats j "shape") (← fChars j "hash")))
  | "sparse" => pure (.leaf (.sparse (← fChars j "fmt") (← fNat j "rows") (← fNat j "cols") (← fChars j "hex")))
  | "proj" => pure (.leaf (.proj (← parseProj j)))
  | "plist" => pure (.leaf (.plist (← (field j "ps" >>= jList parseProj))))
  | "div" => pure (.leaf (.div (← fNat j "dim") (← fNats j "sds")))
  | "merged" =>
    let inner ← field j "inner" >>= jOpt jStr
    pure (.leaf (.merged (← fChars j "name") (← parseDt (← fStr j "dt")) (← fNats j "doms") (← fChars j "mk")
      (← fChars j "pk") (inner.map String.toList)))
  | "bin" => pure (.bin (← parseOp (← fStr j "op")) (← parseTree (← field j "a")) (← parseTree (← field j "b")))
  | "eval" =>
    let args ← field j "args" >>= jList pure
    let fid ← field j "fid" >>= jOpt jNat
    pure (.eval (← fChars j "fname") fid (← parseArgs args))
  | _ => throw s!"unknown node kind {k}"
partial def parseArgs (l : List Json) : R Args :=
  match l with
  | [] => pure .nil
  | a :: as => do pure (.cons (← parseTree a) (← parseArgs as))
end

def parseCfg (j : Json) : R Cfg := do
  pure ⟨← fBool j "domSize", ← fBool j "evalFn", ← fBool j "evalArity", ← fBool j "timeIdx", ← fBool j "plistKeys",
        ← fBool j "domType", ← fBool j "denseShape", ← fBool j "mergedDomType"⟩

def eqPairs (ks : List (List Tok)) : List (Nat × Nat) :=
  let ix := ks.zipIdx
  ix.flatMap (fun (a, i) => (ix.filter (fun (b, j) => i < j && decide (a = b))).map (fun (_, j) => (i, j)))

def step (j : Json) : R Json := do
  let op ← fStr j "op"
  match op with
  | "keys" =>
    let c ← field j "cfg" >>= parseCfg
    let ts ← field j "trees" >>= jList parseTree
    let ks := ts.map (key c)
    pure (obj [("keys", ofList Json.str (ks.map render)),
               ("eq", ofList (fun (p : Nat × Nat) => ofNats [p.1, p.2]) (eqPairs ks)),
               ("wf", ofList Json.bool ((ts.zip ks).map (fun (t, k) => wfTree t && wfList k))),
               ("lex", ofList Json.bool (ks.map (fun k => decide (lex (renderL k) = some k))))])
  | "hist" =>
    -- a history of calls on one operator object: [["key"],["ts",k],["it",k],["set",repr]]
    let c ← field j "cfg" >>= parseCfg
    let pj ← field j "pol"
    let pol : CachePolicy := ⟨← fBool pj "resetOnShift", ← fBool pj "resetOnSet"⟩
    let t ← field j "tree" >>= parseTree
    let hops ← field j "ops" >>= jList (fun h => do
      let l ← jList pure h
      match l with
      | [k] => if (← jStr k) == "key" then pure HOp.key else throw "bad history op"
      | [k, a] =>
        match (← jStr k) with
        | "ts" => pure (HOp.shift true (← jNat a))
        | "it" => pure (HOp.shift false (← jNat a))
        | "set" => pure (HOp.set (← jStr a).toList)
        | _ => throw "bad history op"
      | _ => throw "bad history op")
    match Obj.run c pol ⟨t, none⟩ hops with
    | none => pure (err "raised")
    | some (_, outs) => pure (obj [("keys", ofList Json.str (outs.map render))])
  | _ => throw s!"unknown op {op}"

def main : IO Unit := runPure step
