/- C45 line-protocol driver: `lake env lean --run PorepyVerif/C45/Driver.lean`

   {"op":"keys","cfg":{…six flags…},"trees":[T,…]}  →  {"keys":[rendered key strings],"eq":[[i,j],…]}
   where `eq` lists the pairs i<j whose token lists are equal. -/
import PorepyVerif.Common.Wire
import PorepyVerif.C45.Model
open Lean PV PorepyVerif.C45

def parseOp (s : String) : R BinOp :=
  match s with
  | "add" => pure .add | "sub" => pure .sub | "mul" => pure .mul | "div" => pure .div
  | "pow" => pure .pow | "matmul" => pure .matmul
  | _ => throw s!"unknown operation {s}"

def parseDt (s : String) : R DomType :=
  match s with
  | "subdomains" => pure .subdomains | "interfaces" => pure .interfaces | "boundary" => pure .boundary
  | _ => throw s!"unknown domain type {s}"

def parseProj (j : Json) : R Proj := do
  pure ⟨← fStr j "rng", ← fNat j "rngLen", ← fStr j "dom", ← fNat j "domLen", ← fNat j "dsize",
        ← fNat j "rsize", ← fBool j "tr"⟩

mutual
partial def parseTree (j : Json) : R Tree := do
  let k ← fStr j "k"
  match k with
  | "var" => pure (.leaf (.var (← fStr j "name") (← parseDt (← fStr j "dt")) (← fNat j "dom") (← fInt j "ts") (← fInt j "it")))
  | "mdvar" => pure (.leaf (.mdvar (← fStr j "name") (← parseDt (← fStr j "dt")) (← fNats j "doms") (← fInt j "ts") (← fInt j "it")))
  | "tdda" => pure (.leaf (.tdda (← fStr j "name") (← parseDt (← fStr j "dt")) (← fNats j "doms") (← fInt j "ts")))
  | "scalar" => pure (.leaf (.scalar (← fRat j "v")))
  | "dense" => pure (.leaf (.dense (← fNats j "shape") (← fStr j "hash")))
  | "sparse" => pure (.leaf (.sparse (← fStr j "hash")))
  | "proj" => pure (.leaf (.proj (← parseProj j)))
  | "plist" => pure (.leaf (.plist (← (field j "ps" >>= jList parseProj))))
  | "div" => pure (.leaf (.div (← fNat j "dim") (← fNats j "sds")))
  | "bin" => pure (.bin (← parseOp (← fStr j "op")) (← parseTree (← field j "a")) (← parseTree (← field j "b")))
  | "eval" =>
    let args ← field j "args" >>= jList pure
    pure (.eval (← fStr j "fname") (← fNat j "fid") (← parseArgs args))
  | _ => throw s!"unknown node kind {k}"
partial def parseArgs (l : List Json) : R Args :=
  match l with
  | [] => pure .nil
  | a :: as => do pure (.cons (← parseTree a) (← parseArgs as))
end

def parseCfg (j : Json) : R Cfg := do
  pure ⟨← fBool j "domSize", ← fBool j "evalFn", ← fBool j "timeIdx", ← fBool j "plistKeys",
        ← fBool j "domType", ← fBool j "denseShape"⟩

def eqPairs (ks : List (List Tok)) : List (Nat × Nat) :=
  let ix := ks.zipIdx
  ix.flatMap (fun (a, i) => (ix.filter (fun (b, j) => i < j && decide (a = b))).map (fun (_, j) => (i, j)))

def step (j : Json) : R Json := do
  let op ← fStr j "op"
  match op with
  | "keys" =>
    let c ← field j "cfg" >>= parseCfg
    let ts ← field j "trees" >>= jList parseTree
    let ks := ts.map (key c)
    pure (obj [("keys", ofList Json.str (ks.map render)),
               ("eq", ofList (fun (p : Nat × Nat) => ofNats [p.1, p.2]) (eqPairs ks))])
  | _ => throw s!"unknown op {op}"

def main : IO Unit := runPure step
