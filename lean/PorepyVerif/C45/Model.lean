/-
C45 — executable model of the hash keys of AD operators
(`porepy.numerics.ad.operators`: `Operator._key` and the `_key` overrides of the leaf classes,
`operator_functions.AbstractFunction.__call__` for function-evaluation nodes,
`grid_operators.Divergence._key`).

The real key is a string.  The model key is the *lexed* string: a list of tokens, one token per
piece of the string (`(var`, `, name=p`, `, domain=0`, `)`, ` `, `add`, …).  `render` turns the token list
back into the string; the correspondence check compares `render (key cfg t)` with the real `_key()`
character by character.  Leaf data that the code identifies by a digest (dense / sparse arrays: sha256;
projection index arrays: sha256 after the repair, numpy's `str` before) is represented by that digest
string; the digests are computed by the harness.

`Cfg` selects, defect by defect, between the key as the property demands it (`Cfg.repaired`, all flags
true; this is what the proposed `fixes/C45-*.diff` produce) and the key as built by the code before the
respective repair.  The theorems are about `Cfg.repaired`; the other configurations exist to exhibit
the collisions and to keep the correspondence exact on a tree where a repair is not applied (yet).
-/
namespace PorepyVerif.C45

/-- binary operations that the arithmetic overloads produce (`Operations.value`) -/
inductive BinOp where
  | add | sub | mul | div | pow | matmul
  deriving DecidableEq, Repr

/-- `Operator.domain_type` -/
inductive DomType where
  | subdomains | interfaces | boundary
  deriving DecidableEq, Repr

/-- leaf classes (and the function part of an evaluation node) -/
inductive Kind where
  | var | mdvar | tdda | scalar | dense | sparse | proj | plist | div | function
  deriving DecidableEq, Repr

/-- field labels inside a leaf key -/
inductive Lbl where
  | name | domainType | domain | domains | timeStep | iterate | value | shape | hash
  | rangeIdx | domainIdx | domainSize | rangeSize | rangeSizeT | dim | subdomains | fnId | nargs
  deriving DecidableEq, Repr

/-- field values -/
inductive Val where
  | str (s : String)
  | nat (n : Nat)
  | int (i : Int)
  | rat (q : Rat)
  | nats (l : List Nat)           -- python list of ints
  | tuple (l : List Nat)          -- python tuple of ints (array shape)
  | dtype (d : DomType)
  | arr (digest : String) (len : Nat)  -- an index array: digest string (what the key shows) and its length
  deriving DecidableEq

/-- tokens of a key string -/
inductive Tok where
  | op (o : BinOp)        -- `add` …
  | ev                    -- `evaluate`
  | sp                    -- ` ` (separator of `" ".join`)
  | lpar (k : Kind)       -- `(var` …
  | rpar                  -- `)`
  | fld (l : Lbl) (v : Val)  -- `, name=p` …
  | comma                 -- `, ` between the members of a projection list
  | rbr                   -- `])` closing a projection list
  | projRepr (dsize rlen dlen : Nat) (tr : Bool)  -- `repr` of a projection (unrepaired projection list only)
  deriving DecidableEq

/-- identifying data of a `Projection`: index arrays (digest, length), sizes, transposed flag of the slicer -/
structure Proj where
  rng : String
  rngLen : Nat
  dom : String
  domLen : Nat
  dsize : Nat
  rsize : Nat
  transposed : Bool
  deriving DecidableEq

/-- leaves of an operator tree with their identifying data.
    `ts`/`it` are the private time-step / iterate indices (−1 = current). -/
inductive Leaf where
  | var (name : String) (dt : DomType) (dom : Nat) (ts it : Int)
  | mdvar (name : String) (dt : DomType) (doms : List Nat) (ts it : Int)
  | tdda (name : String) (dt : DomType) (doms : List Nat) (ts : Int)
  | scalar (v : Rat)
  | dense (shape : List Nat) (hash : String)
  | sparse (hash : String)
  | proj (p : Proj)
  | plist (ps : List Proj)
  | div (dim : Nat) (sds : List Nat)
  deriving DecidableEq

mutual
/-- operator trees -/
inductive Tree where
  | leaf (l : Leaf)
  | bin (o : BinOp) (a b : Tree)
  | eval (fname : String) (fid : Nat) (args : Args)
/-- argument lists of function evaluations -/
inductive Args where
  | nil
  | cons (t : Tree) (ts : Args)
end

deriving instance DecidableEq for Tree, Args

/-- which repairs are present in the key construction -/
structure Cfg where
  /-- `domain_size=` shows the domain size (false: the domain indices once more — the typo) -/
  domSize : Bool
  /-- evaluation nodes carry the function identity and the number of arguments -/
  evalFn : Bool
  /-- time-step / iterate indices are part of the keys of variables and time-dependent arrays -/
  timeIdx : Bool
  /-- a projection list is keyed by the keys of its members (false: by their `repr`) -/
  plistKeys : Bool
  /-- the domain type is part of the keys of variables and time-dependent arrays -/
  domType : Bool
  /-- the shape is part of the key of a dense array -/
  denseShape : Bool
  deriving DecidableEq, Repr

/-- the key construction demanded by the property -/
def Cfg.repaired : Cfg := ⟨true, true, true, true, true, true⟩
/-- the key construction of the pinned commit -/
def Cfg.original : Cfg := ⟨false, false, false, false, false, false⟩

/-- `Projection._key` -/
def projKey (c : Cfg) (p : Proj) : List Tok :=
  [ .lpar .proj, .fld .rangeIdx (.arr p.rng p.rngLen), .rpar,
    .fld .domainIdx (.arr p.dom p.domLen),
    .fld .domainSize (if c.domSize then .nat p.dsize else .arr p.dom p.domLen),
    .fld (if p.transposed then .rangeSizeT else .rangeSize) (.nat p.rsize) ]

/-- member of a projection list: its key (repaired) or its `repr` (original) -/
def memberKey (c : Cfg) (p : Proj) : List Tok :=
  if c.plistKeys then projKey c p else [.projRepr p.dsize p.rngLen p.domLen p.transposed]

/-- the members after the first one, each preceded by `, `, then the closing bracket -/
def membersTail (c : Cfg) : List Proj → List Tok
  | [] => [.rbr]
  | p :: ps => .comma :: (memberKey c p ++ membersTail c ps)

/-- members of a projection list joined by `, ` and closed by `])` -/
def membersKey (c : Cfg) : List Proj → List Tok
  | [] => [.rbr]
  | p :: ps => memberKey c p ++ membersTail c ps

/-- time-step / iterate / domain-type fields are present only with the respective repair -/
def optFld (b : Bool) (l : Lbl) (v : Val) : List Tok := if b then [.fld l v] else []

/-- `_key` of the leaf classes -/
def leafKey (c : Cfg) : Leaf → List Tok
  | .var name dt dom ts it =>
      [.lpar .var, .fld .name (.str name)] ++ optFld c.domType .domainType (.dtype dt)
        ++ [.fld .domain (.nat dom)]
        ++ optFld c.timeIdx .timeStep (.int ts) ++ optFld c.timeIdx .iterate (.int it) ++ [.rpar]
  | .mdvar name dt doms ts it =>
      [.lpar .mdvar, .fld .name (.str name)] ++ optFld c.domType .domainType (.dtype dt)
        ++ [.fld .domains (.nats doms)]
        ++ optFld c.timeIdx .timeStep (.int ts) ++ optFld c.timeIdx .iterate (.int it) ++ [.rpar]
  | .tdda name dt doms ts =>
      [.lpar .tdda, .fld .name (.str name)] ++ optFld c.domType .domainType (.dtype dt)
        ++ [.fld .domains (.nats doms)]
        ++ optFld c.timeIdx .timeStep (.int ts) ++ [.rpar]
  | .scalar v => [.lpar .scalar, .fld .value (.rat v), .rpar]
  | .dense shape hash =>
      [.lpar .dense] ++ optFld c.denseShape .shape (.tuple shape) ++ [.fld .hash (.str hash), .rpar]
  | .sparse hash => [.lpar .sparse, .fld .hash (.str hash), .rpar]
  | .proj p => projKey c p
  | .plist ps => .lpar .plist :: membersKey c ps
  | .div dim sds => [.lpar .div, .fld .dim (.nat dim), .fld .subdomains (.nats sds), .rpar]

/-- number of arguments -/
def Args.length : Args → Nat
  | .nil => 0
  | .cons _ ts => ts.length + 1

mutual
/-- `Operator._key`: operation, then the keys of the children, joined by blanks.  A function
    evaluation additionally shows the function (name, identity) and the number of arguments. -/
def key (c : Cfg) : Tree → List Tok
  | .leaf l => leafKey c l
  | .bin o a b => .op o :: .sp :: (key c a ++ .sp :: key c b)
  | .eval fname fid args =>
      (if c.evalFn then
        [.ev, .sp, .lpar .function, .fld .name (.str fname), .fld .fnId (.nat fid), .rpar, .sp,
         .fld .nargs (.nat args.length)]
       else [.ev]) ++ argsKey c args
/-- every child key is preceded by a blank -/
def argsKey (c : Cfg) : Args → List Tok
  | .nil => []
  | .cons t ts => .sp :: (key c t ++ argsKey c ts)
end

/-! ### numpy's abbreviated `str` of an array (source of the index-array collision)

`str(a)` of an array with more than `threshold` (1000) elements shows the first and last `edge` (3)
items around `...`.  `none` stands for the ellipsis. -/
def npSummary (threshold edge : Nat) (l : List Nat) : List (Option Nat) :=
  if l.length > threshold then
    (l.take edge).map some ++ [none] ++ (l.drop (l.length - edge)).map some
  else l.map some

/-! ### rendering of the token list as the key string (used by the driver only) -/

def BinOp.toStr : BinOp → String
  | .add => "add" | .sub => "sub" | .mul => "mul" | .div => "div" | .pow => "pow" | .matmul => "matmul"

def DomType.toStr : DomType → String
  | .subdomains => "subdomains" | .interfaces => "interfaces" | .boundary => "boundary grids"

def Kind.toStr : Kind → String
  | .var => "(var" | .mdvar => "(mdvar" | .tdda => "(time_dependent_dense_array" | .scalar => "(scalar"
  | .dense => "(dense_array" | .sparse => "(sparse_array" | .proj => "(prolongation"
  | .plist => "(slicing_operator_list, operators=[" | .div => "(divergence" | .function => "(function"

def Lbl.toStr : Lbl → String
  | .name => "name" | .domainType => "domain_type" | .domain => "domain" | .domains => "domains"
  | .timeStep => "time_step_index" | .iterate => "iterate_index" | .value => "value" | .shape => "shape"
  | .hash => "hash" | .rangeIdx => "range_indices" | .domainIdx => "domain_indices"
  | .domainSize => "domain_size" | .rangeSize => "range_size" | .rangeSizeT => "range_size"
  | .dim => "dim" | .subdomains => "subdomains" | .fnId => "id" | .nargs => "nargs"

def joinWith (sep : String) : List String → String
  | [] => ""
  | [a] => a
  | a :: l => a ++ sep ++ joinWith sep l

/-- decimal digits of `r / d` (0 ≤ r < d) while the expansion has not terminated, at most `fuel` digits -/
def fracDigits (d : Nat) : Nat → Nat → String
  | 0, _ => ""
  | fuel + 1, r => if r = 0 then "" else toString (r * 10 / d) ++ fracDigits d fuel (r * 10 % d)

/-- python's `repr(float)` for values with a short terminating decimal expansion (the generator only
    produces dyadic rationals of moderate size): `2.0`, `-1.5`, `0.125` -/
def renderFloat (q : Rat) : String :=
  let a := q.num.natAbs
  let d := q.den
  let fr := fracDigits d 60 (a % d)
  (if q.num < 0 then "-" else "") ++ toString (a / d) ++ "." ++ (if fr.isEmpty then "0" else fr)

def Val.toStr : Val → String
  | .str s => s
  | .nat n => toString n
  | .int i => toString i
  | .rat q => renderFloat q
  | .nats l => "[" ++ joinWith ", " (l.map toString) ++ "]"
  | .tuple l => match l with
    | [a] => "(" ++ toString a ++ ",)"
    | _ => "(" ++ joinWith ", " (l.map toString) ++ ")"
  | .dtype d => d.toStr
  | .arr digest _ => digest

def Tok.toStr : Tok → String
  | .op o => o.toStr
  | .ev => "evaluate"
  | .sp => " "
  | .lpar k => k.toStr
  | .rpar => ")"
  | .fld .value v => ", " ++ v.toStr
  | .fld .nargs v => "nargs=" ++ v.toStr
  | .fld .rangeSizeT v => ", range_size=" ++ v.toStr ++ ", transposed"
  | .fld l v => ", " ++ l.toStr ++ "=" ++ v.toStr
  | .comma => ", "
  | .rbr => "])"
  | .projRepr dsize rlen dlen tr =>
      "Projection operator.\nThe projection maps from " ++ toString dsize ++ " to " ++ toString rlen
        ++ " dimensions.\nThe projection maps " ++ toString dlen ++ " elements.\n"
        ++ (if tr then "The operator is transposed." else "")

/-- the key string -/
def render (l : List Tok) : String := String.join (l.map Tok.toStr)

end PorepyVerif.C45
