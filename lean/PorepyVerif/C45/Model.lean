/-
C45 — executable model of the hash keys of AD operators
(`porepy.numerics.ad.operators`: `Operator._key` / `__hash__` and the `_key` overrides of the leaf classes,
`operator_functions.AbstractFunction.__call__` for function-evaluation nodes, `grid_operators.Divergence._key`,
`ad_utils.MergedOperator._key`, `surrogate_operator.SurrogateOperator` which uses the base-class key).

The real key is a string.  The model has three layers:

* `Tree` — operator trees with the identifying data of their leaves;
* `key : Cfg → Tree → List Tok` — the *lexed* key: one token per piece of the string
  (`(var`, `, name=p`, `, domain=0`, `)`, ` `, `add`, …);
* `renderL : List Tok → List Char` — the key string itself (`render` = the same as a `String`), and
  `lex : List Char → Option (List Tok)`, the decoder used to prove that rendering loses nothing.

Strings inside the model (names, digests) are `List Char`, so that the string-level theorems do not depend on
the representation of `String`.  Leaf data that the code identifies by a digest (dense / sparse arrays,
projection index arrays: sha256) is represented by that digest; digests are computed by the harness.  A
scalar is represented by python's `repr` of its float value, which is what the key shows.

`Cfg` selects, defect by defect, between the key as the property demands it (`Cfg.repaired`, all flags true;
this is what `fixes/C45-*.diff` produce) and the key as built before the respective repair.  The theorems are
about `Cfg.repaired`; the other configurations exhibit the collisions and keep the correspondence exact on a
tree where a repair is not applied.
-/
namespace PorepyVerif.C45

open Lean in
/-- `cl!"abc"` = `['a', 'b', 'c']` -/
macro:max "cl!" s:str : term => do
  let cs := s.getString.toList
  let elems ← cs.toArray.mapM (fun c => `($(Syntax.mkCharLit c)))
  `([$elems,*])

abbrev Str := List Char

/-- binary operations that the arithmetic overloads produce (`Operations.value`) -/
inductive BinOp where
  | add | sub | mul | div | pow | matmul
  deriving DecidableEq, Repr

/-- `Operator.domain_type` -/
inductive DomType where
  | subdomains | interfaces | boundary
  deriving DecidableEq, Repr

/-- classes whose key opens with `(<class tag>` followed by labelled fields -/
inductive Kind where
  | var | mdvar | tdda | dense | proj | plist | div | function | merged
  deriving DecidableEq, Repr

inductive StrLbl where
  | name | hash | rangeIdx | domainIdx | matrixKey
  | domainSizeOld   -- unrepaired projection key only: `domain_size=` followed by the domain indices
  deriving DecidableEq, Repr

inductive NatLbl where
  | domain | domainSize | dim | fnId
  deriving DecidableEq, Repr

inductive IntLbl where
  | timeStep | iterate
  deriving DecidableEq, Repr

inductive ListLbl where
  | domains | subdomains
  deriving DecidableEq, Repr

/-- tokens of a key string -/
inductive Tok where
  | op (o : BinOp)                -- `add` …
  | ev                            -- `evaluate`
  | sp                            -- ` ` (separator of `" ".join`)
  | lpar (k : Kind)               -- `(var` …
  | rpar                          -- `)`
  | comma                         -- `, ` between the members of a projection list
  | rbr                           -- `])` closing a projection list
  | scalar (repr : Str)           -- `(scalar, 2.0`
  | sparse (fmt : Str) (rows cols : Nat) (hex : Str)   -- `(sparse_array, hash=csr_matrix_(2, 2)_<hex>`
  | fstr (l : StrLbl) (s : Str)   -- `, name=p` …
  | dtype (d : DomType)           -- `, domain_type=subdomains`
  | fnat (l : NatLbl) (n : Nat)   -- `, domain=0` …
  | nargs (n : Nat)               -- `nargs=2`
  | rangeSize (n : Nat) (tr : Bool)  -- `, range_size=3` / `, range_size=3, transposed`
  | fint (l : IntLbl) (i : Int)   -- `, time_step_index=-1`
  | fnats (l : ListLbl) (ns : List Nat)  -- `, domains=[0, 1]`
  | shape (ns : List Nat)         -- `, shape=(2, 3)`
  | physics (pk : Str) (inner : Option Str)  -- `, physics_key=flow` / `…, inner_physics_key=x`
  | projRepr (dsize : Nat) (tr : Bool)  -- `repr` of a projection (unrepaired projection list only)
  deriving DecidableEq

/-- identifying data of a `Projection`: digests of the index arrays, sizes, transposed flag of the slicer -/
structure Proj where
  rng : Str
  dom : Str
  dsize : Nat
  rsize : Nat
  transposed : Bool
  deriving DecidableEq

/-- leaves of an operator tree with their identifying data.
    `ts`/`it` are the private time-step / iterate indices (−1 = current). -/
inductive Leaf where
  | var (name : Str) (dt : DomType) (dom : Nat) (ts it : Int)
  | mdvar (name : Str) (dt : DomType) (doms : List Nat) (ts it : Int)
  | tdda (name : Str) (dt : DomType) (doms : List Nat) (ts : Int)
  | scalar (repr : Str)
  | dense (shape : List Nat) (hash : Str)
  | sparse (fmt : Str) (rows cols : Nat) (hex : Str)
  | proj (p : Proj)
  | plist (ps : List Proj)
  | div (dim : Nat) (sds : List Nat)
  | merged (name : Str) (dt : DomType) (doms : List Nat) (matrixKey physicsKey : Str) (inner : Option Str)
  deriving DecidableEq

mutual
/-- operator trees.  `eval` is a function evaluation: `fid = some i` for `AbstractFunction.__call__`
    (identity `i` of the callable), `fid = none` for a `SurrogateOperator` (identified by its name). -/
inductive Tree where
  | leaf (l : Leaf)
  | bin (o : BinOp) (a b : Tree)
  | eval (fname : Str) (fid : Option Nat) (args : Args)
/-- argument lists of function evaluations -/
inductive Args where
  | nil
  | cons (t : Tree) (ts : Args)
end

deriving instance DecidableEq for Tree, Args

/-- which repairs are present in the key construction -/
structure Cfg where
  /-- `domain_size=` shows the domain size (false: the domain indices once more — the typo) -/
  domSize : Bool
  /-- evaluation nodes carry the function identity -/
  evalFn : Bool
  /-- evaluation nodes carry the number of arguments -/
  evalArity : Bool
  /-- time-step / iterate indices are part of the keys of variables and time-dependent arrays -/
  timeIdx : Bool
  /-- a projection list is keyed by the keys of its members (false: by their `repr`) -/
  plistKeys : Bool
  /-- the domain type is part of the keys of variables and time-dependent arrays -/
  domType : Bool
  /-- the shape is part of the key of a dense array -/
  denseShape : Bool
  /-- the domain type is part of the key of a merged (discretization) operator -/
  mergedDomType : Bool
  deriving DecidableEq, Repr

/-- the key construction demanded by the property -/
def Cfg.repaired : Cfg := ⟨true, true, true, true, true, true, true, true⟩
/-- the key construction of the pinned commit -/
def Cfg.original : Cfg := ⟨false, false, false, false, false, false, false, false⟩

/-- `Projection._key` -/
def projKey (c : Cfg) (p : Proj) : List Tok :=
  [ .lpar .proj, .fstr .rangeIdx p.rng, .rpar, .fstr .domainIdx p.dom,
    (if c.domSize then .fnat .domainSize p.dsize else .fstr .domainSizeOld p.dom),
    .rangeSize p.rsize p.transposed ]

/-- member of a projection list: its key (repaired) or its `repr` (original; the lengths of the index
    arrays, which `repr` also shows, are not part of the model any more) -/
def memberKey (c : Cfg) (p : Proj) : List Tok :=
  if c.plistKeys then projKey c p else [.projRepr p.dsize p.transposed]

/-- the members after the first one, each preceded by `, `, then the closing bracket -/
def membersTail (c : Cfg) : List Proj → List Tok
  | [] => [.rbr]
  | p :: ps => .comma :: (memberKey c p ++ membersTail c ps)

/-- members of a projection list joined by `, ` and closed by `])` -/
def membersKey (c : Cfg) : List Proj → List Tok
  | [] => [.rbr]
  | p :: ps => memberKey c p ++ membersTail c ps

/-- a field that is present only with the respective repair -/
def opt (b : Bool) (t : Tok) : List Tok := if b then [t] else []

/-- `_key` of the leaf classes -/
def leafKey (c : Cfg) : Leaf → List Tok
  | .var name dt dom ts it =>
      [.lpar .var, .fstr .name name] ++ opt c.domType (.dtype dt) ++ [.fnat .domain dom]
        ++ opt c.timeIdx (.fint .timeStep ts) ++ opt c.timeIdx (.fint .iterate it) ++ [.rpar]
  | .mdvar name dt doms ts it =>
      [.lpar .mdvar, .fstr .name name] ++ opt c.domType (.dtype dt) ++ [.fnats .domains doms]
        ++ opt c.timeIdx (.fint .timeStep ts) ++ opt c.timeIdx (.fint .iterate it) ++ [.rpar]
  | .tdda name dt doms ts =>
      [.lpar .tdda, .fstr .name name] ++ opt c.domType (.dtype dt) ++ [.fnats .domains doms]
        ++ opt c.timeIdx (.fint .timeStep ts) ++ [.rpar]
  | .scalar r => [.scalar r, .rpar]
  | .dense shape hash => [.lpar .dense] ++ opt c.denseShape (.shape shape) ++ [.fstr .hash hash, .rpar]
  | .sparse fmt r cl hex => [.sparse fmt r cl hex, .rpar]
  | .proj p => projKey c p
  | .plist ps => .lpar .plist :: membersKey c ps
  | .div dim sds => [.lpar .div, .fnat .dim dim, .fnats .subdomains sds, .rpar]
  | .merged name dt doms mk pk inner =>
      [.lpar .merged, .fstr .name name] ++ opt c.mergedDomType (.dtype dt)
        ++ [.fnats .domains doms, .rpar, .fstr .matrixKey mk, .physics pk inner]

/-- number of arguments -/
def Args.length : Args → Nat
  | .nil => 0
  | .cons _ ts => ts.length + 1

/-- the function part of an evaluation node: `(function, name=f, id=7)` / `(function, name=f)` -/
def fnKey (fname : Str) (fid : Option Nat) : List Tok :=
  [.lpar .function, .fstr .name fname] ++ (match fid with | some i => [.fnat .fnId i] | none => []) ++ [.rpar]

mutual
/-- `Operator._key`: operation, then the keys of the children, joined by blanks.  A function
    evaluation additionally shows the function (name, identity) and the number of arguments. -/
def key (c : Cfg) : Tree → List Tok
  | .leaf l => leafKey c l
  | .bin o a b => .op o :: .sp :: (key c a ++ .sp :: key c b)
  | .eval fname fid args =>
      (if c.evalFn then [.ev, .sp] ++ fnKey fname fid else [.ev])
        ++ (if c.evalArity then [.sp, .nargs args.length] else []) ++ argsKey c args
/-- every child key is preceded by a blank -/
def argsKey (c : Cfg) : Args → List Tok
  | .nil => []
  | .cons t ts => .sp :: (key c t ++ argsKey c ts)
end

/-! ### numpy's abbreviated `str` of an array (source of the index-array collision)

`str(a)` of an array with more than `threshold` (1000) elements shows the first and last `edge` (3)
items around `...`.  `none` stands for the ellipsis. -/
def npSummary (threshold edge : Nat) (l : List Nat) : List (Option Nat) :=
  if l.length > threshold then
    (l.take edge).map some ++ [none] ++ (l.drop (l.length - edge)).map some
  else l.map some

/-! ### the key string -/

def digitChar (d : Nat) : Char :=
  match d with
  | 0 => '0' | 1 => '1' | 2 => '2' | 3 => '3' | 4 => '4' | 5 => '5' | 6 => '6' | 7 => '7' | 8 => '8' | _ => '9'

/-- decimal digits of `n` in front of `acc` (`fuel > n` suffices) -/
def natCharsAux : Nat → Nat → List Char → List Char
  | 0, _, acc => acc
  | fuel + 1, n, acc =>
    if n / 10 = 0 then digitChar (n % 10) :: acc
    else natCharsAux fuel (n / 10) (digitChar (n % 10) :: acc)

/-- `str(n)` -/
def natChars (n : Nat) : List Char := natCharsAux (n + 1) n []

/-- `str(i)` -/
def intChars : Int → List Char
  | .ofNat n => natChars n
  | .negSucc n => '-' :: natChars (n + 1)

/-- `a, b, c` -/
def natsSep : List Nat → List Char
  | [] => []
  | [a] => natChars a
  | a :: l => natChars a ++ ',' :: ' ' :: natsSep l

/-- python `repr` of a list of ints: `[0, 1]` -/
def listChars (l : List Nat) : List Char := '[' :: (natsSep l ++ [']'])

/-- python `repr` of a tuple of ints: `()`, `(6,)`, `(2, 3)` -/
def tupleChars : List Nat → List Char
  | [a] => '(' :: (natChars a ++ [',', ')'])
  | l => '(' :: (natsSep l ++ [')'])

def BinOp.chars : BinOp → List Char
  | .add => cl!"add" | .sub => cl!"sub" | .mul => cl!"mul" | .div => cl!"div" | .pow => cl!"pow"
  | .matmul => cl!"matmul"

def DomType.chars : DomType → List Char
  | .subdomains => cl!", domain_type=subdomains"
  | .interfaces => cl!", domain_type=interfaces"
  | .boundary => cl!", domain_type=boundary grids"

def Kind.chars : Kind → List Char
  | .var => cl!"(var" | .mdvar => cl!"(mdvar" | .tdda => cl!"(time_dependent_dense_array"
  | .dense => cl!"(dense_array" | .proj => cl!"(prolongation"
  | .plist => cl!"(slicing_operator_list, operators=[" | .div => cl!"(divergence"
  | .function => cl!"(function" | .merged => cl!"(Merged_operator"

def StrLbl.chars : StrLbl → List Char
  | .name => cl!", name=" | .hash => cl!", hash=" | .rangeIdx => cl!", range_indices="
  | .domainIdx => cl!", domain_indices=" | .matrixKey => cl!", discretization_matrix_key="
  | .domainSizeOld => cl!", domain_size="

def NatLbl.chars : NatLbl → List Char
  | .domain => cl!", domain=" | .domainSize => cl!", domain_size=" | .dim => cl!", dim="
  | .fnId => cl!", id="

def IntLbl.chars : IntLbl → List Char
  | .timeStep => cl!", time_step_index=" | .iterate => cl!", iterate_index="

def ListLbl.chars : ListLbl → List Char
  | .domains => cl!", domains=" | .subdomains => cl!", subdomains="

/-- the fixed text a token starts with -/
def Tok.lit : Tok → List Char
  | .op o => o.chars
  | .ev => cl!"evaluate"
  | .sp => cl!" "
  | .lpar k => k.chars
  | .rpar => cl!")"
  | .comma => cl!", "
  | .rbr => cl!"])"
  | .scalar _ => cl!"(scalar, "
  | .sparse .. => cl!"(sparse_array, hash="
  | .fstr l _ => l.chars
  | .dtype d => d.chars
  | .fnat l _ => l.chars
  | .nargs _ => cl!"nargs="
  | .rangeSize .. => cl!", range_size="
  | .fint l _ => l.chars
  | .fnats l _ => l.chars
  | .shape _ => cl!", shape="
  | .physics .. => cl!", physics_key="
  | .projRepr .. => cl!"Projection operator.\nThe projection maps from "

/-- the text after the fixed beginning: the value(s) of the token -/
def Tok.body : Tok → List Char
  | .scalar r => r
  | .sparse fmt r c hex => fmt ++ cl!"_(" ++ natChars r ++ cl!", " ++ natChars c ++ cl!")_" ++ hex
  | .fstr _ s => s
  | .fnat _ n => natChars n
  | .nargs n => natChars n
  | .rangeSize n tr => natChars n ++ (if tr then cl!", transposed" else [])
  | .fint _ i => intChars i
  | .fnats _ ns => listChars ns
  | .shape ns => tupleChars ns
  | .physics pk inner => pk ++ (match inner with | some s => cl!", inner_physics_key=" ++ s | none => [])
  | .projRepr dsize tr =>
      natChars dsize ++ cl!" to ? dimensions.\nThe projection maps ? elements.\n"
        ++ (if tr then cl!"The operator is transposed." else [])
  | _ => []

/-- the piece of the key string a token stands for -/
def Tok.chars (t : Tok) : List Char := t.lit ++ t.body

/-- the key string, as a list of characters -/
def renderL : List Tok → List Char
  | [] => []
  | t :: ts => t.chars ++ renderL ts

/-- the key string -/
def render (l : List Tok) : String := String.ofList (renderL l)

/-! ### decoding a key string into tokens -/

/-- characters that end a value: a value (name, digest, number) extends to the next `,` `)` blank or `]` -/
def isTerm (c : Char) : Bool := c == ',' || c == ')' || c == ' ' || c == ']'

def isDig (c : Char) : Bool :=
  c == '0' || c == '1' || c == '2' || c == '3' || c == '4' || c == '5' || c == '6' || c == '7' || c == '8' || c == '9'

def digVal (c : Char) : Nat :=
  if c == '1' then 1 else if c == '2' then 2 else if c == '3' then 3 else if c == '4' then 4
  else if c == '5' then 5 else if c == '6' then 6 else if c == '7' then 7 else if c == '8' then 8
  else if c == '9' then 9 else 0

/-- longest prefix of characters satisfying `p`, and the rest -/
def spanP (p : Char → Bool) : List Char → List Char × List Char
  | [] => ([], [])
  | c :: cs => if p c then ((spanP p cs).1.cons c, (spanP p cs).2) else ([], c :: cs)

/-- `some rest` if `cs = lit ++ rest` -/
def stripPrefix : List Char → List Char → Option (List Char)
  | [], cs => some cs
  | _ :: _, [] => none
  | a :: l, c :: cs => if a = c then stripPrefix l cs else none

def valNat (cs : List Char) : Nat := cs.foldl (fun a c => 10 * a + digVal c) 0

/-- a decimal number at the beginning of `cs` -/
def takeNat (cs : List Char) : Option (Nat × List Char) :=
  let d := spanP isDig cs
  if d.1.isEmpty then none else some (valNat d.1, d.2)

def takeInt (cs : List Char) : Option (Int × List Char) :=
  match stripPrefix ['-'] cs with
  | some r =>
    match takeNat r with
    | some (n, r') => if n = 0 then none else some (Int.negSucc (n - 1), r')
    | none => none
  | none =>
    match takeNat cs with
    | some (n, r') => some (Int.ofNat n, r')
    | none => none

/-- `a, b, c` up to the first character that continues neither a number nor the separator -/
def takeNatsSep : Nat → List Char → Option (List Nat × List Char)
  | 0, _ => none
  | fuel + 1, cs =>
    match takeNat cs with
    | none => none
    | some (n, r) =>
      match stripPrefix [',', ' '] r with
      | some r' =>
        match takeNatsSep fuel r' with
        | some (l, r'') => some (n :: l, r'')
        | none => none
      | none => some ([n], r)

/-- python list of ints -/
def takeList (cs : List Char) : Option (List Nat × List Char) :=
  match stripPrefix ['['] cs with
  | none => none
  | some r =>
    match stripPrefix [']'] r with
    | some r' => some ([], r')
    | none =>
      match takeNatsSep r.length r with
      | some (l, r2) =>
        match stripPrefix [']'] r2 with
        | some r3 => some (l, r3)
        | none => none
      | none => none

/-- python tuple of ints -/
def takeTuple (cs : List Char) : Option (List Nat × List Char) :=
  match stripPrefix ['('] cs with
  | none => none
  | some r =>
    match stripPrefix [')'] r with
    | some r' => some ([], r')
    | none =>
      match takeNatsSep r.length r with
      | some (l, r2) =>
        match stripPrefix (if l.length = 1 then [',', ')'] else [')']) r2 with
        | some r3 => some (l, r3)
        | none => none
      | none => none

/-- the literals the lexer tries, in this order, each with the token shape it announces
    (`, ` alone — the member separator — is tried last, every field label starts with it) -/
def protos : List Tok :=
  [ .op .add, .op .sub, .op .mul, .op .div, .op .pow, .op .matmul, .ev, .sp,
    .lpar .var, .lpar .mdvar, .lpar .tdda, .lpar .dense, .lpar .proj, .lpar .plist, .lpar .div,
    .lpar .function, .lpar .merged, .rpar, .rbr, .scalar [], .sparse [] 0 0 [],
    .fstr .name [], .fstr .hash [], .fstr .rangeIdx [], .fstr .domainIdx [], .fstr .matrixKey [],
    .dtype .subdomains, .dtype .interfaces, .dtype .boundary,
    .fnat .domain 0, .fnat .domainSize 0, .fnat .dim 0, .fnat .fnId 0, .nargs 0, .rangeSize 0 false,
    .fint .timeStep 0, .fint .iterate 0, .fnats .domains [], .fnats .subdomains [], .shape [],
    .physics [] none, .comma ]

/-- read the value(s) of a token of the same shape as `proto` -/
def parseBody (proto : Tok) (cs : List Char) : Option (Tok × List Char) :=
  match proto with
  | .scalar _ => let v := spanP (fun c => !isTerm c) cs; some (.scalar v.1, v.2)
  | .sparse .. =>
    let f := spanP (fun c => c != '(') cs
    match stripPrefix ['_'] f.1.reverse, stripPrefix ['('] f.2 with
    | some fr, some r1 =>
      match takeNat r1 with
      | some (rows, r1') =>
        match stripPrefix [',', ' '] r1' with
        | some r2 =>
          match takeNat r2 with
          | some (cols, r2') =>
            match stripPrefix [')', '_'] r2' with
            | some r3 =>
              let h := spanP (fun c => !isTerm c) r3
              some (.sparse fr.reverse rows cols h.1, h.2)
            | none => none
          | none => none
        | none => none
      | none => none
    | _, _ => none
  | .fstr l _ => let v := spanP (fun c => !isTerm c) cs; some (.fstr l v.1, v.2)
  | .fnat l _ => (takeNat cs).map (fun (n, r) => (.fnat l n, r))
  | .nargs _ => (takeNat cs).map (fun (n, r) => (.nargs n, r))
  | .rangeSize .. =>
    match takeNat cs with
    | some (n, r) =>
      match stripPrefix (cl!", transposed") r with
      | some r' => some (.rangeSize n true, r')
      | none => some (.rangeSize n false, r)
    | none => none
  | .fint l _ => (takeInt cs).map (fun (i, r) => (.fint l i, r))
  | .fnats l _ => (takeList cs).map (fun (ns, r) => (.fnats l ns, r))
  | .shape _ => (takeTuple cs).map (fun (ns, r) => (.shape ns, r))
  | .physics .. =>
    let v := spanP (fun c => !isTerm c) cs
    match stripPrefix (cl!", inner_physics_key=") v.2 with
    | some r' => let w := spanP (fun c => !isTerm c) r'; some (.physics v.1 (some w.1), w.2)
    | none => some (.physics v.1 none, v.2)
  | t => some (t, cs)

/-- the first literal of `ps` that `cs` starts with decides the token -/
def lexWith : List Tok → List Char → Option (Tok × List Char)
  | [], _ => none
  | p :: ps, cs =>
    match stripPrefix p.lit cs with
    | some r => parseBody p r
    | none => lexWith ps cs

/-- one token from the beginning of a key string -/
def lexOne (cs : List Char) : Option (Tok × List Char) := lexWith protos cs

/-- decode a key string (`fuel` ≥ number of tokens; the length of the string suffices) -/
def lexAux : Nat → List Char → Option (List Tok)
  | _, [] => some []
  | 0, _ :: _ => none
  | fuel + 1, cs =>
    match lexOne cs with
    | some (t, r) => (lexAux fuel r).map (t :: ·)
    | none => none

def lex (cs : List Char) : Option (List Tok) := lexAux cs.length cs

/-! ### well-formed token lists: what a key can contain -/

/-- a value must not contain a character that ends values -/
def valOk (s : Str) : Bool := s.all (fun c => !isTerm c)

def wfTok : Tok → Bool
  | .scalar r => valOk r
  | .sparse fmt _ _ hex => valOk fmt && fmt.all (fun c => c != '(') && valOk hex
  | .fstr .domainSizeOld _ => false
  | .fstr _ s => valOk s
  | .physics pk inner => valOk pk && (match inner with | some s => valOk s | none => true)
  | .projRepr .. => false
  | _ => true

/-- the token ends with a value of open length (the next character must end it) -/
def openEnd : Tok → Bool
  | .scalar _ | .sparse .. | .fstr .. | .fnat .. | .nargs _ | .fint .. | .physics .. => true
  | .rangeSize _ tr => !tr
  | _ => false

/-- the token starts with a character that ends values -/
def termStart (t : Tok) : Bool :=
  match t.lit with
  | c :: _ => isTerm c
  | [] => false

/-- `t'` may follow `t`: a value is ended by the next token; the member separator `, ` is followed by a member -/
def follows (t t' : Tok) : Bool :=
  (!openEnd t || termStart t') && (t != .comma || (match t' with | .lpar _ => true | _ => false))

def wfList : List Tok → Bool
  | [] => true
  | [t] => wfTok t && t != .comma
  | t :: t' :: r => wfTok t && follows t t' && wfList (t' :: r)

/-- names and digests of a tree are free of the delimiter characters -/
def wfProj (p : Proj) : Bool := valOk p.rng && valOk p.dom

def wfLeaf : Leaf → Bool
  | .var name .. => valOk name
  | .mdvar name .. => valOk name
  | .tdda name .. => valOk name
  | .scalar r => valOk r
  | .dense _ hash => valOk hash
  | .sparse fmt _ _ hex => valOk fmt && fmt.all (fun c => c != '(') && valOk hex
  | .proj p => wfProj p
  | .plist ps => ps.all wfProj
  | .div .. => true
  | .merged name _ _ mk pk inner =>
      valOk name && valOk mk && valOk pk && (match inner with | some s => valOk s | none => true)

mutual
def wfTree : Tree → Bool
  | .leaf l => wfLeaf l
  | .bin _ a b => wfTree a && wfTree b
  | .eval fname _ args => valOk fname && wfArgs args
def wfArgs : Args → Bool
  | .nil => true
  | .cons t ts => wfTree t && wfArgs ts
end

/-! ### previous_timestep / previous_iteration (`TimeDependentOperator`, `IterativeOperator`,
`_get_previous_time_or_iterate`) and the cached key

`none` models the exception the code raises (`ValueError`: time shift of an operator at a previous iterate
or vice versa; `AssertionError`: zero steps). -/

/-- shift of a leaf; `time = true`: `previous_timestep(steps)`, else `previous_iteration(steps)` -/
def shiftLeaf (time : Bool) (steps : Nat) : Leaf → Option Leaf
  | .var name dt dom ts it =>
      if steps = 0 then none
      else if time then (if it ≥ 0 then none else some (.var name dt dom (ts + steps) it))
      else (if ts ≥ 0 then none else some (.var name dt dom ts (it + steps)))
  | .mdvar name dt doms ts it =>
      if steps = 0 then none
      else if time then (if it ≥ 0 then none else some (.mdvar name dt doms (ts + steps) it))
      else (if ts ≥ 0 then none else some (.mdvar name dt doms ts (it + steps)))
  | .tdda name dt doms ts =>
      if time then (if steps = 0 then none else some (.tdda name dt doms (ts + steps)))
      else some (.tdda name dt doms ts)
  | l => some l

mutual
/-- the recursion of `_get_previous_time_or_iterate`: a copy of the tree with shifted leaves -/
def shiftTree (time : Bool) (steps : Nat) : Tree → Option Tree
  | .leaf l => (shiftLeaf time steps l).map .leaf
  | .bin o a b =>
    match shiftTree time steps a, shiftTree time steps b with
    | some a', some b' => some (.bin o a' b')
    | _, _ => none
  | .eval f i args => (shiftArgs time steps args).map (.eval f i)
def shiftArgs (time : Bool) (steps : Nat) : Args → Option Args
  | .nil => some .nil
  | .cons t ts =>
    match shiftTree time steps t, shiftArgs time steps ts with
    | some t', some ts' => some (.cons t' ts')
    | _, _ => none
end

/-- the leaf reacts to the shift -/
def Leaf.dependsOn (time : Bool) : Leaf → Bool
  | .var .. | .mdvar .. => true
  | .tdda .. => time
  | _ => false

mutual
def Tree.dependsOn (time : Bool) : Tree → Bool
  | .leaf l => l.dependsOn time
  | .bin _ a b => a.dependsOn time || b.dependsOn time
  | .eval _ _ args => args.dependsOn time
def Args.dependsOn (time : Bool) : Args → Bool
  | .nil => false
  | .cons t ts => t.dependsOn time || ts.dependsOn time
end

/-- an operator object: its tree and `_cached_key` -/
structure Obj where
  tree : Tree
  cache : Option (List Tok)

/-- which code paths discard the cached key (both `true` = what the property needs) -/
structure CachePolicy where
  /-- `previous_timestep` / `previous_iteration` / `_get_previous_time_or_iterate` reset the key that
      `copy.copy` carried over (in /repo since fix 95886d1ad) -/
  resetOnShift : Bool
  /-- `Scalar.set_value` resets the key (proposed: fixes/C45-8-scalar-set-value.diff) -/
  resetOnSet : Bool

/-- calls on an operator object -/
inductive HOp where
  | key                              -- `_key()` / `hash()`
  | shift (time : Bool) (steps : Nat)  -- continue with the shifted copy
  | set (repr : Str)                 -- `Scalar.set_value`

/-- `_key()`: the cached key if there is one, else compute and cache -/
def Obj.getKey (c : Cfg) (o : Obj) : List Tok × Obj :=
  match o.cache with
  | some k => (k, o)
  | none => (key c o.tree, { o with cache := some (key c o.tree) })

/-- a leaf that does not react to the shift is returned itself (no copy, the cache stays) -/
def Obj.sameObject (o : Obj) (time : Bool) : Bool :=
  match o.tree with
  | .leaf l => !l.dependsOn time
  | _ => false

def Obj.setValue (pol : CachePolicy) (r : Str) (o : Obj) : Option Obj :=
  match o.tree with
  | .leaf (.scalar _) => some ⟨.leaf (.scalar r), if pol.resetOnSet then none else o.cache⟩
  | _ => none

def Obj.step (c : Cfg) (pol : CachePolicy) (o : Obj) : HOp → Option (Obj × Option (List Tok))
  | .key => some ((o.getKey c).2, some (o.getKey c).1)
  | .shift time steps =>
    (shiftTree time steps o.tree).map (fun t =>
      (⟨t, if o.sameObject time then o.cache else if pol.resetOnShift then none else o.cache⟩, none))
  | .set r => (o.setValue pol r).map (fun o' => (o', none))

/-- a history of calls; the observed keys, `none` if a call raises -/
def Obj.run (c : Cfg) (pol : CachePolicy) : Obj → List HOp → Option (Obj × List (List Tok))
  | o, [] => some (o, [])
  | o, h :: hs =>
    match o.step c pol h with
    | none => none
    | some (o', out) =>
      match Obj.run c pol o' hs with
      | none => none
      | some (o'', outs) => some (o'', (match out with | some k => [k] | none => []) ++ outs)

/-- the same history on plain trees (what the keys ought to be) -/
def specRun (c : Cfg) : Tree → List HOp → Option (Tree × List (List Tok))
  | t, [] => some (t, [])
  | t, .key :: hs => (specRun c t hs).map (fun (t', outs) => (t', key c t :: outs))
  | t, .shift time steps :: hs =>
    match shiftTree time steps t with
    | none => none
    | some t' => specRun c t' hs
  | t, .set r :: hs =>
    match t with
    | .leaf (.scalar _) => specRun c (.leaf (.scalar r)) hs
    | _ => none

end PorepyVerif.C45
