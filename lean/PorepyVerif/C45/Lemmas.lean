/-
C45 — helper lemmas: the repaired key is a prefix code (unique readability).
Every lemma has the shape  `K x₁ ++ r₁ = K x₂ ++ r₂ → x₁ = x₂ ∧ r₁ = r₂`  for one of the key builders `K`.
-/
import PorepyVerif.C45.Model

namespace PorepyVerif.C45

/-- key of a projection: six tokens, all identifying fields present -/
theorem projKey_prefix (p1 p2 : Proj) (r1 r2 : List Tok)
    (h : projKey .repaired p1 ++ r1 = projKey .repaired p2 ++ r2) : p1 = p2 ∧ r1 = r2 := by
  obtain ⟨a1, b1, c1, d1, e1, f1, t1⟩ := p1
  obtain ⟨a2, b2, c2, d2, e2, f2, t2⟩ := p2
  cases t1 <;> cases t2 <;> simp [projKey, Cfg.repaired] at h ⊢ <;> simp_all

theorem membersTail_prefix (ps1 : List Proj) : ∀ (ps2 : List Proj) (r1 r2 : List Tok),
    membersTail .repaired ps1 ++ r1 = membersTail .repaired ps2 ++ r2 → ps1 = ps2 ∧ r1 = r2 := by
  induction ps1 with
  | nil =>
    intro ps2 r1 r2 h
    cases ps2 with
    | nil => simpa [membersTail] using h
    | cons p ps => simp [membersTail] at h
  | cons p ps ih =>
    intro ps2 r1 r2 h
    cases ps2 with
    | nil => simp [membersTail] at h
    | cons p' ps' =>
      have hm : ∀ q, memberKey .repaired q = projKey .repaired q := fun q => by
        simp [memberKey, Cfg.repaired]
      simp only [membersTail, hm, List.cons_append, List.append_assoc, List.cons.injEq, true_and] at h
      obtain ⟨hp, hr⟩ := projKey_prefix _ _ _ _ h
      obtain ⟨hps, hr'⟩ := ih _ _ _ hr
      exact ⟨by rw [hp, hps], hr'⟩

theorem membersKey_prefix (ps1 ps2 : List Proj) (r1 r2 : List Tok)
    (h : membersKey .repaired ps1 ++ r1 = membersKey .repaired ps2 ++ r2) : ps1 = ps2 ∧ r1 = r2 := by
  have hm : ∀ q, memberKey .repaired q = projKey .repaired q := fun q => by
    simp [memberKey, Cfg.repaired]
  cases ps1 with
  | nil =>
    cases ps2 with
    | nil => simpa [membersKey] using h
    | cons p ps => simp [membersKey, hm, projKey] at h
  | cons p ps =>
    cases ps2 with
    | nil => simp [membersKey, hm, projKey] at h
    | cons p' ps' =>
      simp only [membersKey, hm, List.append_assoc] at h
      obtain ⟨hp, hr⟩ := projKey_prefix _ _ _ _ h
      obtain ⟨hps, hr'⟩ := membersTail_prefix _ _ _ _ hr
      exact ⟨by rw [hp, hps], hr'⟩

/-- every leaf key starts with an opening token that names the leaf class -/
theorem leafKey_head (c : Cfg) (l : Leaf) : ∃ k rest, leafKey c l = .lpar k :: rest := by
  cases l <;> simp [leafKey, projKey]

theorem leafKey_prefix (l1 l2 : Leaf) (r1 r2 : List Tok)
    (h : leafKey .repaired l1 ++ r1 = leafKey .repaired l2 ++ r2) : l1 = l2 ∧ r1 = r2 := by
  cases l1 <;> cases l2 <;>
    first
    | (simp [leafKey, optFld, projKey, Cfg.repaired] at h; done)
    | (simp only [leafKey, List.cons_append, List.cons.injEq, true_and] at h
       obtain ⟨hp, hr⟩ := membersKey_prefix _ _ _ _ h
       exact ⟨by rw [hp], hr⟩)
    | (simp only [leafKey] at h
       obtain ⟨hp, hr⟩ := projKey_prefix _ _ _ _ h
       exact ⟨by rw [hp], hr⟩)
    | (simp [leafKey, optFld, Cfg.repaired] at h ⊢; simp_all)

/-- the fixed tokens in front of the argument keys of an evaluation node -/
theorem key_eval (fname : String) (fid : Nat) (args : Args) :
    key .repaired (.eval fname fid args) =
      [.ev, .sp, .lpar .function, .fld .name (.str fname), .fld .fnId (.nat fid), .rpar, .sp,
       .fld .nargs (.nat args.length)] ++ argsKey .repaired args := by
  simp [key, Cfg.repaired]

mutual
/-- Unique readability: the repaired key is a prefix code.  If a key followed by anything equals another
    key followed by anything, the trees and the remainders agree. -/
theorem key_prefix : ∀ (t1 t2 : Tree) (r1 r2 : List Tok),
    key .repaired t1 ++ r1 = key .repaired t2 ++ r2 → t1 = t2 ∧ r1 = r2
  | .leaf l1, .leaf l2, r1, r2, h => by
    simp only [key] at h
    obtain ⟨hl, hr⟩ := leafKey_prefix _ _ _ _ h
    exact ⟨by rw [hl], hr⟩
  | .leaf l1, .bin o a b, r1, r2, h => by
    obtain ⟨k, rest, hk⟩ := leafKey_head .repaired l1
    simp [key, hk] at h
  | .leaf l1, .eval f i as, r1, r2, h => by
    obtain ⟨k, rest, hk⟩ := leafKey_head .repaired l1
    rw [key_eval] at h
    simp [key, hk] at h
  | .bin o a b, .leaf l2, r1, r2, h => by
    obtain ⟨k, rest, hk⟩ := leafKey_head .repaired l2
    simp [key, hk] at h
  | .eval f i as, .leaf l2, r1, r2, h => by
    obtain ⟨k, rest, hk⟩ := leafKey_head .repaired l2
    rw [key_eval] at h
    simp [key, hk] at h
  | .bin o a b, .eval f i as, r1, r2, h => by
    rw [key_eval] at h
    simp [key] at h
  | .eval f i as, .bin o a b, r1, r2, h => by
    rw [key_eval] at h
    simp [key] at h
  | .bin o a b, .bin o' a' b', r1, r2, h => by
    simp only [key, List.cons_append, List.append_assoc, List.cons.injEq, Tok.op.injEq, true_and] at h
    obtain ⟨ho, h⟩ := h
    obtain ⟨ha, h⟩ := key_prefix a a' _ _ h
    simp only [List.cons.injEq, true_and] at h
    obtain ⟨hb, hr⟩ := key_prefix b b' _ _ h
    exact ⟨by rw [ho, ha, hb], hr⟩
  | .eval f i as, .eval f' i' as', r1, r2, h => by
    rw [key_eval, key_eval] at h
    simp only [List.cons_append, List.nil_append, List.cons.injEq, Tok.fld.injEq, Val.str.injEq,
      Val.nat.injEq, true_and] at h
    obtain ⟨hf, hi, hn, h⟩ := h
    obtain ⟨has, hr⟩ := argsKey_prefix as as' r1 r2 hn h
    exact ⟨by rw [hf, hi, has], hr⟩
/-- the same for argument lists of equal length (the length is part of the key) -/
theorem argsKey_prefix : ∀ (a1 a2 : Args) (r1 r2 : List Tok), a1.length = a2.length →
    argsKey .repaired a1 ++ r1 = argsKey .repaired a2 ++ r2 → a1 = a2 ∧ r1 = r2
  | .nil, .nil, r1, r2, _, h => by simpa [argsKey] using h
  | .nil, .cons t ts, r1, r2, hn, _ => by simp [Args.length] at hn
  | .cons t ts, .nil, r1, r2, hn, _ => by simp [Args.length] at hn
  | .cons t ts, .cons t' ts', r1, r2, hn, h => by
    simp only [argsKey, List.cons_append, List.append_assoc, List.cons.injEq, true_and] at h
    obtain ⟨ht, h⟩ := key_prefix t t' _ _ h
    have hn' : ts.length = ts'.length := by simpa [Args.length] using hn
    obtain ⟨hts, hr⟩ := argsKey_prefix ts ts' r1 r2 hn' h
    exact ⟨by rw [ht, hts], hr⟩
end

end PorepyVerif.C45
