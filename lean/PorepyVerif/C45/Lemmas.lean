/-
C45 — helper lemmas.

Part 1: the repaired key is a prefix code at token level (unique readability).  Every lemma has the shape
`K x₁ ++ r₁ = K x₂ ++ r₂ → x₁ = x₂ ∧ r₁ = r₂` for one of the key builders `K`.

Part 2: the key string determines the token list: `lex (renderL ts) = some ts` for well-formed `ts`.
-/
import PorepyVerif.C45.Model

set_option linter.unusedSimpArgs false

namespace PorepyVerif.C45

/-! ## Part 1: tokens -/

/-- key of a projection: six tokens, all identifying fields present -/
theorem projKey_prefix (p1 p2 : Proj) (r1 r2 : List Tok)
    (h : projKey .repaired p1 ++ r1 = projKey .repaired p2 ++ r2) : p1 = p2 ∧ r1 = r2 := by
  obtain ⟨a1, c1, e1, f1, t1⟩ := p1
  obtain ⟨a2, c2, e2, f2, t2⟩ := p2
  simp [projKey, Cfg.repaired] at h ⊢
  simp_all

theorem membersTail_prefix (ps1 : List Proj) : ∀ (ps2 : List Proj) (r1 r2 : List Tok),
    membersTail .repaired ps1 ++ r1 = membersTail .repaired ps2 ++ r2 → ps1 = ps2 ∧ r1 = r2 := by
  induction ps1 with
  | nil =>
    intro ps2 r1 r2 h
    cases ps2 with
    | nil => simpa [membersTail] using h
    | cons p ps => simp [membersTail] at h
  | cons p ps ih =>
    intro ps2 r1 r2 h
    cases ps2 with
    | nil => simp [membersTail] at h
    | cons p' ps' =>
      have hm : ∀ q, memberKey .repaired q = projKey .repaired q := fun q => by
        simp [memberKey, Cfg.repaired]
      simp only [membersTail, hm, List.cons_append, List.append_assoc, List.cons.injEq, true_and] at h
      obtain ⟨hp, hr⟩ := projKey_prefix _ _ _ _ h
      obtain ⟨hps, hr'⟩ := ih _ _ _ hr
      exact ⟨by rw [hp, hps], hr'⟩

theorem membersKey_prefix (ps1 ps2 : List Proj) (r1 r2 : List Tok)
    (h : membersKey .repaired ps1 ++ r1 = membersKey .repaired ps2 ++ r2) : ps1 = ps2 ∧ r1 = r2 := by
  have hm : ∀ q, memberKey .repaired q = projKey .repaired q := fun q => by
    simp [memberKey, Cfg.repaired]
  cases ps1 with
  | nil =>
    cases ps2 with
    | nil => simpa [membersKey] using h
    | cons p ps => simp [membersKey, hm, projKey] at h
  | cons p ps =>
    cases ps2 with
    | nil => simp [membersKey, hm, projKey] at h
    | cons p' ps' =>
      simp only [membersKey, hm, List.append_assoc] at h
      obtain ⟨hp, hr⟩ := projKey_prefix _ _ _ _ h
      obtain ⟨hps, hr'⟩ := membersTail_prefix _ _ _ _ hr
      exact ⟨by rw [hp, hps], hr'⟩

/-- a leaf key starts with a token that is neither an operation nor `evaluate` -/
theorem leafKey_head (c : Cfg) (l : Leaf) :
    ∃ t rest, leafKey c l = t :: rest ∧ (∀ o, t ≠ .op o) ∧ t ≠ .ev := by
  cases l <;> simp [leafKey, projKey]

theorem leafKey_prefix (l1 l2 : Leaf) (r1 r2 : List Tok)
    (h : leafKey .repaired l1 ++ r1 = leafKey .repaired l2 ++ r2) : l1 = l2 ∧ r1 = r2 := by
  cases l1 <;> cases l2 <;>
    first
    | (simp [leafKey, opt, projKey, Cfg.repaired] at h; done)
    | (simp only [leafKey, List.cons_append, List.cons.injEq, true_and] at h
       obtain ⟨hp, hr⟩ := membersKey_prefix _ _ _ _ h
       exact ⟨by rw [hp], hr⟩)
    | (simp only [leafKey] at h
       obtain ⟨hp, hr⟩ := projKey_prefix _ _ _ _ h
       exact ⟨by rw [hp], hr⟩)
    | (simp [leafKey, opt, Cfg.repaired] at h ⊢; simp_all)

/-- the fixed tokens in front of the argument keys of an evaluation node -/
theorem key_eval (fname : Str) (fid : Option Nat) (args : Args) :
    key .repaired (.eval fname fid args) =
      .ev :: .sp :: (fnKey fname fid ++ .sp :: .nargs args.length :: argsKey .repaired args) := by
  simp [key, Cfg.repaired]

theorem fnKey_prefix (f1 f2 : Str) (i1 i2 : Option Nat) (r1 r2 : List Tok)
    (h : fnKey f1 i1 ++ r1 = fnKey f2 i2 ++ r2) : f1 = f2 ∧ i1 = i2 ∧ r1 = r2 := by
  cases i1 <;> cases i2 <;> simp [fnKey] at h ⊢ <;> simp_all

mutual
/-- Unique readability: the repaired key is a prefix code.  If a key followed by anything equals another
    key followed by anything, the trees and the remainders agree. -/
theorem key_prefix : ∀ (t1 t2 : Tree) (r1 r2 : List Tok),
    key .repaired t1 ++ r1 = key .repaired t2 ++ r2 → t1 = t2 ∧ r1 = r2
  | .leaf l1, .leaf l2, r1, r2, h => by
    simp only [key] at h
    obtain ⟨hl, hr⟩ := leafKey_prefix _ _ _ _ h
    exact ⟨by rw [hl], hr⟩
  | .leaf l1, .bin o a b, r1, r2, h => by
    obtain ⟨k, rest, hk, ho, _⟩ := leafKey_head .repaired l1
    simp [key, hk] at h
    exact absurd h.1 (ho _)
  | .leaf l1, .eval f i as, r1, r2, h => by
    obtain ⟨k, rest, hk, _, he⟩ := leafKey_head .repaired l1
    rw [key_eval] at h
    simp [key, hk] at h
    exact absurd h.1 he
  | .bin o a b, .leaf l2, r1, r2, h => by
    obtain ⟨k, rest, hk, ho, _⟩ := leafKey_head .repaired l2
    simp [key, hk] at h
    exact absurd h.1.symm (ho _)
  | .eval f i as, .leaf l2, r1, r2, h => by
    obtain ⟨k, rest, hk, _, he⟩ := leafKey_head .repaired l2
    rw [key_eval] at h
    simp [key, hk] at h
    exact absurd h.1.symm he
  | .bin o a b, .eval f i as, r1, r2, h => by
    rw [key_eval] at h
    simp [key] at h
  | .eval f i as, .bin o a b, r1, r2, h => by
    rw [key_eval] at h
    simp [key] at h
  | .bin o a b, .bin o' a' b', r1, r2, h => by
    simp only [key, List.cons_append, List.append_assoc, List.cons.injEq, Tok.op.injEq, true_and] at h
    obtain ⟨ho, h⟩ := h
    obtain ⟨ha, h⟩ := key_prefix a a' _ _ h
    simp only [List.cons.injEq, true_and] at h
    obtain ⟨hb, hr⟩ := key_prefix b b' _ _ h
    exact ⟨by rw [ho, ha, hb], hr⟩
  | .eval f i as, .eval f' i' as', r1, r2, h => by
    rw [key_eval, key_eval] at h
    simp only [List.cons_append, List.append_assoc, List.cons.injEq, true_and] at h
    obtain ⟨hf, hi, h⟩ := fnKey_prefix _ _ _ _ _ _ h
    simp only [List.cons.injEq, Tok.nargs.injEq, true_and] at h
    obtain ⟨hn, h⟩ := h
    obtain ⟨has, hr⟩ := argsKey_prefix as as' r1 r2 hn h
    exact ⟨by rw [hf, hi, has], hr⟩
/-- the same for argument lists of equal length (the length is part of the key) -/
theorem argsKey_prefix : ∀ (a1 a2 : Args) (r1 r2 : List Tok), a1.length = a2.length →
    argsKey .repaired a1 ++ r1 = argsKey .repaired a2 ++ r2 → a1 = a2 ∧ r1 = r2
  | .nil, .nil, r1, r2, _, h => by simpa [argsKey] using h
  | .nil, .cons t ts, r1, r2, hn, _ => by simp [Args.length] at hn
  | .cons t ts, .nil, r1, r2, hn, _ => by simp [Args.length] at hn
  | .cons t ts, .cons t' ts', r1, r2, hn, h => by
    simp only [argsKey, List.cons_append, List.append_assoc, List.cons.injEq, true_and] at h
    obtain ⟨ht, h⟩ := key_prefix t t' _ _ h
    have hn' : ts.length = ts'.length := by simpa [Args.length] using hn
    obtain ⟨hts, hr⟩ := argsKey_prefix ts ts' r1 r2 hn' h
    exact ⟨by rw [ht, hts], hr⟩
end

/-! ## Part 2: characters

`lex (renderL ts) = some ts` for every well-formed token list: the literals the lexer tries are pairwise
distinguishable (`protos_clash`, a finite table check), numbers / lists / tuples are read back by `takeNat`,
`takeInt`, `takeList`, `takeTuple`, values extend to the next delimiter. -/

/-- `r` is empty or starts with a character not satisfying `p` -/
def headNot (p : Char → Bool) : List Char → Prop
  | [] => True
  | c :: _ => p c = false

theorem spanP_append (p : Char → Bool) (v r : List Char) (hv : ∀ c ∈ v, p c = true) (hr : headNot p r) :
    spanP p (v ++ r) = (v, r) := by
  induction v with
  | nil =>
    cases r with
    | nil => rfl
    | cons c r => simp [spanP, headNot] at hr ⊢; simp [hr]
  | cons a v ih =>
    have ha : p a = true := hv a (List.mem_cons_self)
    have := ih (fun c hc => hv c (List.mem_cons_of_mem _ hc))
    simp [spanP, ha, this]

theorem stripPrefix_append (l r : List Char) : stripPrefix l (l ++ r) = some r := by
  induction l with
  | nil => cases r <;> rfl
  | cons a l ih => simp [stripPrefix, ih]

/-- the two lists differ at a position both have -/
def clash : List Char → List Char → Bool
  | a :: l, b :: p => a != b || clash l p
  | _, _ => false

theorem stripPrefix_clash : ∀ (l p x : List Char), clash l p = true → stripPrefix l (p ++ x) = none
  | [], _, _, h => by simp [clash] at h
  | _ :: _, [], _, h => by simp [clash] at h
  | a :: l, b :: p, x, h => by
    simp only [clash, Bool.or_eq_true, bne_iff_ne, ne_eq] at h
    by_cases hab : a = b
    · subst hab
      simp only [not_true_eq_false, false_or] at h
      simp [stripPrefix, stripPrefix_clash l p x h]
    · simp [stripPrefix, hab]

theorem stripPrefix_nil_none (a : Char) (l : List Char) : stripPrefix (a :: l) [] = none := rfl

theorem digVal_digitChar : ∀ d, d < 10 → digVal (digitChar d) = d := by decide
theorem isDig_digitChar : ∀ d, isDig (digitChar d) = true := by
  intro d
  unfold digitChar
  split <;> rfl

theorem natCharsAux_spec : ∀ (fuel n : Nat) (acc : List Char), n < fuel →
    ∃ ds, natCharsAux fuel n acc = ds ++ acc ∧ ds ≠ [] ∧ (∀ c ∈ ds, isDig c = true) ∧ valNat ds = n := by
  intro fuel
  induction fuel with
  | zero => intro n acc h; omega
  | succ fuel ih =>
    intro n acc h
    unfold natCharsAux
    by_cases h0 : n / 10 = 0
    · refine ⟨[digitChar (n % 10)], by simp [h0], by simp, ?_, ?_⟩
      · intro c hc; simp at hc; subst hc; exact isDig_digitChar _
      · have h1 : n % 10 = n := by omega
        have h2 := digVal_digitChar (n % 10) (Nat.mod_lt _ (by omega))
        rw [h1] at h2
        simp [valNat, h1, h2]
    · obtain ⟨ds, hds, hne, hdig, hval⟩ := ih (n / 10) (digitChar (n % 10) :: acc) (by omega)
      refine ⟨ds ++ [digitChar (n % 10)], by simp [h0, hds], by simp, ?_, ?_⟩
      · intro c hc
        rcases List.mem_append.mp hc with hc | hc
        · exact hdig c hc
        · simp at hc; subst hc; exact isDig_digitChar _
      · unfold valNat at hval ⊢
        rw [List.foldl_append, hval]
        simp [digVal_digitChar (n % 10) (Nat.mod_lt _ (by omega))]
        omega

theorem natChars_spec (n : Nat) :
    natChars n ≠ [] ∧ (∀ c ∈ natChars n, isDig c = true) ∧ valNat (natChars n) = n := by
  obtain ⟨ds, hds, hne, hdig, hval⟩ := natCharsAux_spec (n + 1) n [] (by omega)
  simp only [List.append_nil] at hds
  unfold natChars
  rw [hds]
  exact ⟨hne, hdig, hval⟩

theorem takeNat_natChars (n : Nat) (r : List Char) (hr : headNot isDig r) :
    takeNat (natChars n ++ r) = some (n, r) := by
  obtain ⟨hne, hdig, hval⟩ := natChars_spec n
  unfold takeNat
  rw [spanP_append isDig _ _ hdig hr]
  cases h : natChars n with
  | nil => exact absurd h hne
  | cons a l => rw [← h]; simp [hne, hval]

theorem isTerm_not_isDig (c : Char) (h : isTerm c = true) : isDig c = false := by
  simp only [isTerm, Bool.or_eq_true, beq_iff_eq] at h
  rcases h with ((h | h) | h) | h <;> subst h <;> rfl

theorem natChars_head (n : Nat) : ∃ d ds, natChars n = d :: ds ∧ isDig d = true := by
  obtain ⟨hne, hdig, _⟩ := natChars_spec n
  cases h : natChars n with
  | nil => exact absurd h hne
  | cons d ds => exact ⟨d, ds, rfl, hdig d (by rw [h]; exact List.mem_cons_self)⟩

theorem takeInt_intChars (i : Int) (r : List Char) (hr : headNot isDig r) :
    takeInt (intChars i ++ r) = some (i, r) := by
  cases i with
  | ofNat n =>
    obtain ⟨d, ds, hd, hdig⟩ := natChars_head n
    have hne : ('-' : Char) ≠ d := by intro h; subst h; simp [isDig] at hdig
    have h1 : stripPrefix ['-'] (natChars n ++ r) = none := by
      rw [hd]; simp [stripPrefix, hne]
    simp only [intChars, takeInt, h1, takeNat_natChars n r hr]
  | negSucc n =>
    have h1 : stripPrefix ['-'] ('-' :: (natChars (n + 1) ++ r)) = some (natChars (n + 1) ++ r) := by
      simp [stripPrefix]
    simp [intChars, takeInt, h1, takeNat_natChars (n + 1) r hr]

theorem takeNatsSep_natsSep : ∀ (l : List Nat), l ≠ [] → ∀ (fuel : Nat) (r : List Char), l.length ≤ fuel →
    headNot isDig r → stripPrefix [',', ' '] r = none →
    takeNatsSep fuel (natsSep l ++ r) = some (l, r)
  | [], h, _, _, _, _, _ => absurd rfl h
  | [a], _, fuel, r, hf, hr, hs => by
    cases fuel with
    | zero => simp at hf
    | succ fuel => simp [takeNatsSep, natsSep, takeNat_natChars a r hr, hs]
  | a :: b :: l, _, fuel, r, hf, hr, hs => by
    cases fuel with
    | zero => simp at hf
    | succ fuel =>
      have ih := takeNatsSep_natsSep (b :: l) (by simp) fuel r (by simpa using hf) hr hs
      have h1 : takeNat (natChars a ++ (',' :: ' ' :: (natsSep (b :: l) ++ r))) =
          some (a, ',' :: ' ' :: (natsSep (b :: l) ++ r)) := takeNat_natChars a _ (by simp [headNot, isDig])
      have h2 : stripPrefix [',', ' '] (',' :: ' ' :: (natsSep (b :: l) ++ r)) = some (natsSep (b :: l) ++ r) := by
        simp [stripPrefix]
      simp only [natsSep, List.append_assoc, List.cons_append, takeNatsSep, h1, h2, ih]

theorem natsSep_length (l : List Nat) : l.length ≤ (natsSep l).length := by
  induction l with
  | nil => simp [natsSep]
  | cons a l ih =>
    cases l with
    | nil =>
      obtain ⟨d, ds, hd, _⟩ := natChars_head a
      simp [natsSep, hd]
    | cons b l =>
      simp only [natsSep, List.length_append, List.length_cons] at ih ⊢
      omega

theorem natsSep_head (l : List Nat) (h : l ≠ []) : ∃ d ds, natsSep l = d :: ds ∧ isDig d = true := by
  cases l with
  | nil => exact absurd rfl h
  | cons a l =>
    obtain ⟨d, ds, hd, hdig⟩ := natChars_head a
    cases l with
    | nil => exact ⟨d, ds, by simp [natsSep, hd], hdig⟩
    | cons b l => exact ⟨d, ds ++ ',' :: ' ' :: natsSep (b :: l), by simp [natsSep, hd], hdig⟩

theorem takeList_listChars (l : List Nat) (r : List Char) : takeList (listChars l ++ r) = some (l, r) := by
  cases l with
  | nil => simp [listChars, natsSep, takeList, stripPrefix]
  | cons a l =>
    obtain ⟨d, ds, hd, hdig⟩ := natsSep_head (a :: l) (by simp)
    have hne : (']' : Char) ≠ d := by intro h; subst h; simp [isDig] at hdig
    have h0 : stripPrefix ['['] (listChars (a :: l) ++ r) = some (natsSep (a :: l) ++ (']' :: r)) := by
      simp [listChars, stripPrefix]
    have h1 : stripPrefix [']'] (natsSep (a :: l) ++ (']' :: r)) = none := by
      rw [hd]; simp [stripPrefix, hne]
    have hlen : (a :: l).length ≤ (natsSep (a :: l) ++ (']' :: r)).length := by
      have := natsSep_length (a :: l)
      simp only [List.length_append] at this ⊢
      omega
    have h2 := takeNatsSep_natsSep (a :: l) (by simp) _ (']' :: r) hlen (by simp [headNot, isDig])
      (by simp [stripPrefix])
    have h3 : stripPrefix [']'] (']' :: r) = some r := by simp [stripPrefix]
    simp only [takeList, h0, h1, h2, h3]

theorem takeTuple_tupleChars (l : List Nat) (r : List Char) : takeTuple (tupleChars l ++ r) = some (l, r) := by
  cases l with
  | nil => simp [tupleChars, natsSep, takeTuple, stripPrefix]
  | cons a l =>
    obtain ⟨d, ds, hd, hdig⟩ := natsSep_head (a :: l) (by simp)
    have hne : (')' : Char) ≠ d := by intro h; subst h; simp [isDig] at hdig
    cases l with
    | nil =>
      have h0 : stripPrefix ['('] (tupleChars [a] ++ r) = some (natsSep [a] ++ (',' :: ')' :: r)) := by
        simp [tupleChars, natsSep, stripPrefix]
      have h1 : stripPrefix [')'] (natsSep [a] ++ (',' :: ')' :: r)) = none := by
        rw [hd]; simp [stripPrefix, hne]
      have hlen : [a].length ≤ (natsSep [a] ++ (',' :: ')' :: r)).length := by
        simp only [List.length_append, List.length_cons, List.length_nil]
        omega
      have h2 := takeNatsSep_natsSep [a] (by simp) _ (',' :: ')' :: r) hlen (by simp [headNot, isDig])
        (by simp [stripPrefix])
      have h3 : stripPrefix [',', ')'] (',' :: ')' :: r) = some r := by simp [stripPrefix]
      simp only [takeTuple, h0, h1, h2, List.length_singleton, if_true, h3]
    | cons b l =>
      have h0 : stripPrefix ['('] (tupleChars (a :: b :: l) ++ r) = some (natsSep (a :: b :: l) ++ (')' :: r)) := by
        simp [tupleChars, stripPrefix]
      have h1 : stripPrefix [')'] (natsSep (a :: b :: l) ++ (')' :: r)) = none := by
        rw [hd]; simp [stripPrefix, hne]
      have hlen : (a :: b :: l).length ≤ (natsSep (a :: b :: l) ++ (')' :: r)).length := by
        have := natsSep_length (a :: b :: l)
        simp only [List.length_append] at this ⊢
        omega
      have h2 := takeNatsSep_natsSep (a :: b :: l) (by simp) _ (')' :: r) hlen (by simp [headNot, isDig])
        (by simp [stripPrefix])
      have h3 : stripPrefix [')'] (')' :: r) = some r := by simp [stripPrefix]
      have h4 : ¬ ((a :: b :: l).length = 1) := by simp
      simp only [takeTuple, h0, h1, h2, h4, if_false, h3]

/-- `r` is empty or starts with a character that ends values -/
def headTerm : List Char → Prop
  | [] => True
  | c :: _ => isTerm c = true

theorem headTerm_headNot_isDig (r : List Char) (h : headTerm r) : headNot isDig r := by
  cases r with
  | nil => trivial
  | cons c r => exact isTerm_not_isDig c h

theorem spanVal_append (v rest : List Char) (hv : valOk v = true) (hr : headTerm rest) :
    spanP (fun c => !isTerm c) (v ++ rest) = (v, rest) := by
  apply spanP_append
  · simpa [valOk, List.all_eq_true] using hv
  · cases rest with
    | nil => trivial
    | cons c r => simp [headNot]; exact hr

/-- the representative of the shape of a token in `protos` -/
def proto : Tok → Tok
  | .scalar _ => .scalar []
  | .sparse .. => .sparse [] 0 0 []
  | .fstr l _ => .fstr l []
  | .fnat l _ => .fnat l 0
  | .nargs _ => .nargs 0
  | .rangeSize .. => .rangeSize 0 false
  | .fint l _ => .fint l 0
  | .fnats l _ => .fnats l []
  | .shape _ => .shape []
  | .physics .. => .physics [] none
  | .projRepr .. => .projRepr 0 false
  | t => t

theorem proto_lit (t : Tok) : (proto t).lit = t.lit := by cases t <;> rfl

theorem proto_mem (t : Tok) (h : wfTok t = true) : proto t ∈ protos := by
  cases t with
  | op o => cases o <;> simp [proto, protos]
  | lpar k => cases k <;> simp [proto, protos]
  | fstr l s => cases l <;> simp_all [proto, protos, wfTok]
  | dtype d => cases d <;> simp [proto, protos]
  | fnat l n => cases l <;> simp [proto, protos]
  | fint l i => cases l <;> simp [proto, protos]
  | fnats l ns => cases l <;> simp [proto, protos]
  | projRepr a b => simp [wfTok] at h
  | _ => simp [proto, protos]

/-- what may come after the piece of token `t` in a key string -/
structure RestOk (t : Tok) (rest : List Char) : Prop where
  term : openEnd t = true → headTerm rest
  noTr : stripPrefix cl!", transposed" rest = none
  noInner : stripPrefix cl!", inner_physics_key=" rest = none

theorem parseBody_spec (t : Tok) (rest : List Char) (hw : wfTok t = true) (hr : RestOk t rest) :
    parseBody (proto t) (t.body ++ rest) = some (t, rest) := by
  cases t with
  | scalar r =>
    have := spanVal_append r rest (by simpa [wfTok] using hw) (hr.term rfl)
    simp [parseBody, proto, Tok.body, this]
  | fstr l s =>
    have hv : valOk s = true := by cases l <;> simp_all [wfTok]
    have := spanVal_append s rest hv (hr.term rfl)
    simp [parseBody, proto, Tok.body, this]
  | fnat l n =>
    have := takeNat_natChars n rest (headTerm_headNot_isDig _ (hr.term rfl))
    simp [parseBody, proto, Tok.body, this]
  | nargs n =>
    have := takeNat_natChars n rest (headTerm_headNot_isDig _ (hr.term rfl))
    simp [parseBody, proto, Tok.body, this]
  | fint l i =>
    have := takeInt_intChars i rest (headTerm_headNot_isDig _ (hr.term rfl))
    simp [parseBody, proto, Tok.body, this]
  | fnats l ns => simp [parseBody, proto, Tok.body, takeList_listChars]
  | shape ns => simp [parseBody, proto, Tok.body, takeTuple_tupleChars]
  | rangeSize n tr =>
    cases tr with
    | true =>
      have h1 := takeNat_natChars n (cl!", transposed" ++ rest) (by simp [headNot, isDig])
      have h2 := stripPrefix_append cl!", transposed" rest
      simp only [parseBody, proto, Tok.body, if_true, List.append_assoc, h1, h2]
    | false =>
      have h1 := takeNat_natChars n rest (headTerm_headNot_isDig _ (hr.term rfl))
      simp only [parseBody, proto, Tok.body, Bool.false_eq_true, if_false, List.append_nil, h1, hr.noTr]
  | physics pk inner =>
    cases inner with
    | some s =>
      have hw' : valOk pk = true ∧ valOk s = true := by simpa [wfTok] using hw
      have h1 := spanVal_append pk (cl!", inner_physics_key=" ++ (s ++ rest)) hw'.1 (by simp [headTerm, isTerm])
      have h2 := stripPrefix_append cl!", inner_physics_key=" (s ++ rest)
      have h3 := spanVal_append s rest hw'.2 (hr.term rfl)
      simp only [parseBody, proto, Tok.body, List.append_assoc, h1, h2, h3]
    | none =>
      have hw' : valOk pk = true := by simpa [wfTok] using hw
      have h1 := spanVal_append pk rest hw' (hr.term rfl)
      simp only [parseBody, proto, Tok.body, List.append_nil, h1, hr.noInner]
  | sparse fmt rows cols hex =>
    have hw' : (valOk fmt = true ∧ (fmt.all fun c => c != '(') = true) ∧ valOk hex = true := by
      simpa [wfTok] using hw
    have h1 : spanP (fun c => c != '(') ((fmt ++ ['_']) ++ ('(' :: (natChars rows ++ (',' :: ' ' :: (natChars cols ++ (')' :: '_' :: (hex ++ rest)))))))
        = (fmt ++ ['_'], '(' :: (natChars rows ++ (',' :: ' ' :: (natChars cols ++ (')' :: '_' :: (hex ++ rest)))))) := by
      apply spanP_append
      · intro c hc
        rcases List.mem_append.mp hc with hc | hc
        · exact (List.all_eq_true.mp hw'.1.2) c hc
        · simp at hc; subst hc; rfl
      · simp [headNot]
    have h2 := takeNat_natChars rows (',' :: ' ' :: (natChars cols ++ (')' :: '_' :: (hex ++ rest)))) (by simp [headNot, isDig])
    have h3 := takeNat_natChars cols (')' :: '_' :: (hex ++ rest)) (by simp [headNot, isDig])
    have h4 := spanVal_append hex rest hw'.2 (hr.term rfl)
    have hb : (Tok.sparse fmt rows cols hex).body ++ rest =
        (fmt ++ ['_']) ++ ('(' :: (natChars rows ++ (',' :: ' ' :: (natChars cols ++ (')' :: '_' :: (hex ++ rest)))))) := by
      simp [Tok.body]
    rw [hb]
    simp only [parseBody, proto, h1, List.reverse_append, List.reverse_cons, List.reverse_nil, List.nil_append,
      List.singleton_append, stripPrefix, if_true, h2, h3, h4, List.reverse_reverse]
  | projRepr a b => simp [wfTok] at hw
  | _ => simp [parseBody, proto, Tok.body]

/-- what the string certainly continues with when a token of this shape was rendered in a well-formed
    list: its literal; for the member separator also the `(` of the member that follows -/
def litX (q : Tok) : List Char := if q = .comma then cl!", (" else q.lit

/-- the literals tried before the one of `q` -/
def before (q : Tok) : List Tok := protos.takeWhile (fun p => p != q)

/-- every literal tried earlier differs from the text of a later token at a position both have -/
theorem protos_clash : protos.all (fun q => (before q).all (fun p => clash p.lit (litX q))) = true := by
  decide +kernel

theorem protos_noTr : protos.all (fun q => clash cl!", transposed" (litX q)) = true := by decide +kernel

theorem protos_noInner : protos.all (fun q => clash cl!", inner_physics_key=" (litX q)) = true := by
  decide +kernel

theorem lexWith_spec (q : Tok) (cs r : List Char) : ∀ (l : List Tok), q ∈ l →
    (∀ p ∈ l.takeWhile (fun p => p != q), stripPrefix p.lit cs = none) →
    stripPrefix q.lit cs = some r → lexWith l cs = parseBody q r := by
  intro l
  induction l with
  | nil => intro h; simp at h
  | cons p l ih =>
    intro hq hb hs
    by_cases hpq : p = q
    · subst hpq
      simp [lexWith, hs]
    · have hne : (p != q) = true := by simpa using hpq
      have hp : stripPrefix p.lit cs = none := hb p (by simp [List.takeWhile, hne])
      have hq' : q ∈ l := by
        rcases List.mem_cons.mp hq with h | h
        · exact absurd h.symm hpq
        · exact h
      simp only [lexWith, hp]
      exact ih hq' (fun p' hp' => hb p' (by simp [List.takeWhile, hne, hp'])) hs

theorem proto_eq_comma (t : Tok) : proto t = .comma ↔ t = .comma := by
  cases t <;> simp [proto]

theorem lexOne_spec (t : Tok) (rest : List Char) (hw : wfTok t = true) (hr : RestOk t rest)
    (hc : t = .comma → ∃ tail, rest = '(' :: tail) : lexOne (t.chars ++ rest) = some (t, rest) := by
  have hmem := proto_mem t hw
  have hX : ∃ tail, t.chars ++ rest = litX (proto t) ++ tail := by
    by_cases h : t = .comma
    · obtain ⟨tail, ht⟩ := hc h
      subst h
      exact ⟨tail, by simp [ht, Tok.chars, Tok.lit, Tok.body, litX, proto]⟩
    · have : proto t ≠ .comma := fun h' => h ((proto_eq_comma t).mp h')
      exact ⟨t.body ++ rest, by simp [litX, this, proto_lit, Tok.chars]⟩
  obtain ⟨tail, htail⟩ := hX
  have hcl := List.all_eq_true.mp protos_clash (proto t) hmem
  have hb : ∀ p ∈ protos.takeWhile (fun p => p != proto t), stripPrefix p.lit (t.chars ++ rest) = none := by
    intro p hp
    rw [htail]
    exact stripPrefix_clash _ _ _ (List.all_eq_true.mp hcl p hp)
  have hs : stripPrefix (proto t).lit (t.chars ++ rest) = some (t.body ++ rest) := by
    rw [proto_lit, Tok.chars, List.append_assoc]
    exact stripPrefix_append _ _
  unfold lexOne
  rw [lexWith_spec (proto t) _ _ protos hmem hb hs]
  exact parseBody_spec t rest hw hr

theorem lit_ne_nil (t : Tok) : t.lit ≠ [] := by
  cases t with
  | op o => cases o <;> simp [Tok.lit, BinOp.chars]
  | lpar k => cases k <;> simp [Tok.lit, Kind.chars]
  | fstr l s => cases l <;> simp [Tok.lit, StrLbl.chars]
  | dtype d => cases d <;> simp [Tok.lit, DomType.chars]
  | fnat l n => cases l <;> simp [Tok.lit, NatLbl.chars]
  | fint l i => cases l <;> simp [Tok.lit, IntLbl.chars]
  | fnats l ns => cases l <;> simp [Tok.lit, ListLbl.chars]
  | _ => simp [Tok.lit]

theorem wfList_cons (t : Tok) (r : List Tok) (h : wfList (t :: r) = true) : wfTok t = true ∧ wfList r = true := by
  cases r with
  | nil => simp [wfList] at h ⊢; exact h.1
  | cons t' r' => simp [wfList] at h ⊢; exact ⟨h.1.1, h.2⟩

theorem kind_chars_head (k : Kind) : ∃ tail, k.chars = '(' :: tail := by
  cases k <;> exact ⟨_, rfl⟩

/-- the string of a well-formed list starts with the literal of its first token
    (and with `, (` if that is the member separator) -/
theorem renderL_start (t : Tok) (r : List Tok) (h : wfList (t :: r) = true) :
    ∃ tail, renderL (t :: r) = litX (proto t) ++ tail := by
  by_cases hc : t = .comma
  · subst hc
    cases r with
    | nil => simp [wfList] at h
    | cons t' r' =>
      have hf : follows .comma t' = true := by simp [wfList] at h; exact h.1.2
      cases t' <;> simp [follows] at hf
      rename_i k
      obtain ⟨tail, hk⟩ := kind_chars_head k
      exact ⟨tail ++ renderL r', by simp [renderL, Tok.chars, Tok.lit, Tok.body, litX, proto, hk]⟩
  · have : proto t ≠ .comma := fun h' => hc ((proto_eq_comma t).mp h')
    exact ⟨t.body ++ renderL r, by simp [renderL, litX, this, proto_lit, Tok.chars]⟩

theorem restOk_of_wfList (t : Tok) (r : List Tok) (h : wfList (t :: r) = true) : RestOk t (renderL r) := by
  cases r with
  | nil => exact ⟨fun _ => trivial, rfl, rfl⟩
  | cons t' r' =>
    have hf : follows t t' = true := by simp [wfList] at h; exact h.1.2
    have hw' := wfList_cons t (t' :: r') h
    obtain ⟨tail, htail⟩ := renderL_start t' r' hw'.2
    have hmem := proto_mem t' (wfList_cons t' r' hw'.2).1
    refine ⟨?_, ?_, ?_⟩
    · intro ho
      have hts : termStart t' = true := by simp [follows, ho] at hf; exact hf.1
      unfold termStart at hts
      cases hl : t'.lit with
      | nil => simp [hl] at hts
      | cons c l => simp [hl] at hts; simp [renderL, Tok.chars, hl, headTerm, hts]
    · rw [htail]
      exact stripPrefix_clash _ _ _ (List.all_eq_true.mp protos_noTr _ hmem)
    · rw [htail]
      exact stripPrefix_clash _ _ _ (List.all_eq_true.mp protos_noInner _ hmem)

theorem comma_next (r : List Tok) (h : wfList (.comma :: r) = true) : ∃ tail, renderL r = '(' :: tail := by
  cases r with
  | nil => simp [wfList] at h
  | cons t' r' =>
    have hf : follows .comma t' = true := by simp [wfList] at h; exact h.1.2
    cases t' <;> simp [follows] at hf
    rename_i k
    obtain ⟨tail, hk⟩ := kind_chars_head k
    exact ⟨tail ++ renderL r', by simp [renderL, Tok.chars, Tok.lit, Tok.body, hk]⟩

theorem lexAux_spec : ∀ (ts : List Tok) (fuel : Nat), wfList ts = true → ts.length ≤ fuel →
    lexAux fuel (renderL ts) = some ts := by
  intro ts
  induction ts with
  | nil => intro fuel _ _; cases fuel <;> rfl
  | cons t r ih =>
    intro fuel hw hf
    cases fuel with
    | zero => simp at hf
    | succ fuel =>
      have hw' := wfList_cons t r hw
      have h1 : lexOne (t.chars ++ renderL r) = some (t, renderL r) :=
        lexOne_spec t (renderL r) hw'.1 (restOk_of_wfList t r hw) (fun hc => by subst hc; exact comma_next r hw)
      have hne : t.chars ++ renderL r ≠ [] := by
        intro h
        have := List.append_eq_nil_iff.mp h
        exact lit_ne_nil t (List.append_eq_nil_iff.mp this.1).1
      have h2 := ih fuel hw'.2 (by simpa using hf)
      show lexAux (fuel + 1) (t.chars ++ renderL r) = some (t :: r)
      cases hcs : t.chars ++ renderL r with
      | nil => exact absurd hcs hne
      | cons c cs =>
        rw [hcs] at h1
        simp only [lexAux, h1]
        simp [h2]

theorem chars_length_pos (t : Tok) : 0 < t.chars.length := by
  have := lit_ne_nil t
  cases h : t.lit with
  | nil => exact absurd h this
  | cons c l => simp [Tok.chars, h]

theorem length_le_renderL (ts : List Tok) : ts.length ≤ (renderL ts).length := by
  induction ts with
  | nil => simp [renderL]
  | cons t r ih =>
    have := chars_length_pos t
    simp only [renderL, List.length_cons, List.length_append]
    omega

/-- the decoder reads back every well-formed token list from its string -/
theorem lex_renderL (ts : List Tok) (h : wfList ts = true) : lex (renderL ts) = some ts :=
  lexAux_spec ts _ h (length_le_renderL ts)

/-- hence rendering loses nothing -/
theorem renderL_injective (a b : List Tok) (ha : wfList a = true) (hb : wfList b = true)
    (h : renderL a = renderL b) : a = b := by
  have h1 := lex_renderL a ha
  have h2 := lex_renderL b hb
  rw [h] at h1
  exact Option.some.inj (h1.symm.trans h2)

/-- nothing, or a token that starts with a character ending values, comes next -/
def okNext : List Tok → Bool
  | [] => true
  | y :: _ => termStart y

/-- the condition a token puts on what follows it -/
def linkB (t : Tok) (x : List Tok) : Bool :=
  if t == .comma then (match x with | .lpar _ :: _ => true | _ => false) else (!openEnd t || okNext x)

theorem wfList_cons_eq (t : Tok) (x : List Tok) : wfList (t :: x) = (wfTok t && linkB t x && wfList x) := by
  cases x with
  | nil =>
    by_cases hc : t = .comma
    · subst hc; simp [wfList, linkB]
    · have hne : (t != .comma) = true := by simpa using hc
      simp [wfList, linkB, hc, hne, okNext]
  | cons y z =>
    by_cases hc : t = .comma
    · subst hc; cases y <;> simp [wfList, linkB, follows, openEnd]
    · have hne : (t != .comma) = true := by simpa using hc
      simp [wfList, linkB, hc, hne, okNext, follows]

theorem wfList_comma (k : Kind) (z : List Tok) :
    wfList (.comma :: .lpar k :: z) = wfList (.lpar k :: z) := by
  simp [wfList, wfTok, follows, openEnd]

theorem okNext_cons (y : Tok) (z : List Tok) : okNext (y :: z) = termStart y := rfl
theorem okNext_nil : okNext [] = true := rfl
theorem termStart_fstr (l : StrLbl) (s : Str) : termStart (.fstr l s) = true := by cases l <;> rfl
theorem termStart_fnat (l : NatLbl) (n : Nat) : termStart (.fnat l n) = true := by cases l <;> rfl
theorem termStart_fint (l : IntLbl) (i : Int) : termStart (.fint l i) = true := by cases l <;> rfl
theorem termStart_fnats (l : ListLbl) (ns : List Nat) : termStart (.fnats l ns) = true := by cases l <;> rfl
theorem termStart_dtype (d : DomType) : termStart (.dtype d) = true := by cases d <;> rfl
theorem termStart_rangeSize (n : Nat) (tr : Bool) : termStart (.rangeSize n tr) = true := rfl
theorem termStart_physics (pk : Str) (i : Option Str) : termStart (.physics pk i) = true := rfl
theorem termStart_shape (ns : List Nat) : termStart (.shape ns) = true := rfl
theorem termStart_rpar : termStart .rpar = true := rfl
theorem termStart_sp : termStart .sp = true := rfl
theorem termStart_rbr : termStart .rbr = true := rfl
theorem termStart_comma : termStart .comma = true := rfl

theorem wfProjKey (p : Proj) (x : List Tok) (hp : wfProj p = true) (hx : okNext x = true) (hw : wfList x = true) :
    wfList (projKey .repaired p ++ x) = true := by
  obtain ⟨rng, dom, ds, rs, tr⟩ := p
  simp only [wfProj, Bool.and_eq_true] at hp
  simp [projKey, Cfg.repaired, wfList_cons_eq, linkB, wfTok, hp.1, hp.2, openEnd, okNext_cons, termStart_fstr,
    termStart_fnat, termStart_rangeSize, termStart_rpar, hx, hw]

theorem okNext_membersTail (ps : List Proj) (x : List Tok) : okNext (membersTail .repaired ps ++ x) = true := by
  cases ps <;> simp [membersTail, okNext_cons, termStart_rbr, termStart_comma]

theorem wfMembersTail (ps : List Proj) (x : List Tok) (hp : ps.all wfProj = true) (hw : wfList x = true) :
    wfList (membersTail .repaired ps ++ x) = true := by
  induction ps with
  | nil => simp [membersTail, wfList_cons_eq, linkB, wfTok, openEnd, hw]
  | cons p ps ih =>
    simp only [List.all_cons, Bool.and_eq_true] at hp
    have h1 := wfProjKey p (membersTail .repaired ps ++ x) hp.1 (okNext_membersTail ps x) (ih hp.2)
    have hm : memberKey .repaired p = projKey .repaired p := by simp [memberKey, Cfg.repaired]
    simp only [membersTail, hm, List.cons_append, List.append_assoc]
    have : projKey .repaired p ++ (membersTail .repaired ps ++ x) =
        .lpar .proj :: ((projKey .repaired p).tail ++ (membersTail .repaired ps ++ x)) := by
      simp [projKey]
    rw [this, wfList_comma]
    rw [this] at h1
    exact h1

theorem wfMembersKey (ps : List Proj) (x : List Tok) (hp : ps.all wfProj = true) (hw : wfList x = true) :
    wfList (membersKey .repaired ps ++ x) = true := by
  cases ps with
  | nil => simp [membersKey, wfList_cons_eq, linkB, wfTok, openEnd, hw]
  | cons p ps =>
    simp only [List.all_cons, Bool.and_eq_true] at hp
    have hm : memberKey .repaired p = projKey .repaired p := by simp [memberKey, Cfg.repaired]
    simp only [membersKey, hm, List.append_assoc]
    exact wfProjKey p _ hp.1 (okNext_membersTail ps x) (wfMembersTail ps x hp.2 hw)

theorem wfLeafKey (l : Leaf) (x : List Tok) (hl : wfLeaf l = true) (hx : okNext x = true) (hw : wfList x = true) :
    wfList (leafKey .repaired l ++ x) = true := by
  cases l with
  | proj p => exact wfProjKey p x hl hx hw
  | plist ps =>
    simp only [leafKey, List.cons_append]
    rw [wfList_cons_eq]
    simp [wfTok, linkB, openEnd, wfMembersKey ps x hl hw]
  | merged name dt doms mk pk inner =>
    simp only [wfLeaf, Bool.and_eq_true] at hl
    cases inner <;>
    simp_all [leafKey, opt, Cfg.repaired, wfList_cons_eq, linkB, wfTok, openEnd, okNext_cons, termStart_fstr,
      termStart_fnats, termStart_dtype, termStart_physics, termStart_rpar]
  | _ =>
    simp_all [wfLeaf, leafKey, opt, Cfg.repaired, wfList_cons_eq, linkB, wfTok, openEnd, okNext_cons, termStart_fstr,
      termStart_fnat, termStart_fint, termStart_fnats, termStart_dtype, termStart_shape, termStart_rpar]

mutual
theorem wfKey : ∀ (t : Tree) (x : List Tok), wfTree t = true → okNext x = true → wfList x = true →
    wfList (key .repaired t ++ x) = true
  | .leaf l, x, ht, hx, hw => by
    simp only [key]
    exact wfLeafKey l x (by simpa [wfTree] using ht) hx hw
  | .bin o a b, x, ht, hx, hw => by
    simp only [wfTree, Bool.and_eq_true] at ht
    have hb := wfKey b x ht.2 hx hw
    have hb' : wfList (.sp :: (key .repaired b ++ x)) = true := by
      rw [wfList_cons_eq]; simp [wfTok, linkB, openEnd, hb]
    have ha := wfKey a (.sp :: (key .repaired b ++ x)) ht.1 (by simp [okNext_cons, termStart_sp]) hb'
    simp only [key, List.cons_append, List.append_assoc]
    rw [wfList_cons_eq, wfList_cons_eq]
    simp [wfTok, linkB, openEnd, ha]
  | .eval f i as, x, ht, hx, hw => by
    simp only [wfTree, Bool.and_eq_true] at ht
    obtain ⟨h1, h2⟩ := wfArgsKey as x ht.2 hx hw
    rw [key_eval]
    cases i <;>
    simp [fnKey, wfList_cons_eq, wfTok, linkB, openEnd, okNext_cons, termStart_fstr, termStart_fnat, termStart_rpar,
      termStart_sp, ht.1, h1, h2]
theorem wfArgsKey : ∀ (as : Args) (x : List Tok), wfArgs as = true → okNext x = true → wfList x = true →
    wfList (argsKey .repaired as ++ x) = true ∧ okNext (argsKey .repaired as ++ x) = true
  | .nil, x, _, hx, hw => by simp [argsKey, hx, hw]
  | .cons t ts, x, ht, hx, hw => by
    simp only [wfArgs, Bool.and_eq_true] at ht
    obtain ⟨h1, h2⟩ := wfArgsKey ts x ht.2 hx hw
    have := wfKey t (argsKey .repaired ts ++ x) ht.1 h2 h1
    simp only [argsKey, List.cons_append, List.append_assoc]
    rw [wfList_cons_eq]
    simp [wfTok, linkB, openEnd, this, okNext_cons, termStart_sp]
end

/-- the key of a well-formed tree (names and digests without `,` `)` blank `]`) is a well-formed token list -/
theorem wfList_key (t : Tree) (h : wfTree t = true) : wfList (key .repaired t) = true := by
  have := wfKey t [] h rfl rfl
  simpa using this



/-! ## Part 3: shifts and the cached key -/

theorem shiftLeaf_ne (time : Bool) (k : Nat) (l l' : Leaf) (h : shiftLeaf time k l = some l')
    (hd : l.dependsOn time = true) : l' ≠ l := by
  cases l <;> simp [Leaf.dependsOn] at hd <;> simp only [shiftLeaf] at h
  · split at h
    · simp at h
    · cases time <;> simp at h <;> (obtain ⟨_, h⟩ := h; subst h; simp; omega)
  · split at h
    · simp at h
    · cases time <;> simp at h <;> (obtain ⟨_, h⟩ := h; subst h; simp; omega)
  · subst hd
    simp at h
    obtain ⟨_, h⟩ := h; subst h; simp; omega

theorem shiftLeaf_nodep (time : Bool) (k : Nat) (l : Leaf) (hd : l.dependsOn time = false) :
    shiftLeaf time k l = some l := by
  cases l <;> simp [Leaf.dependsOn] at hd <;> simp [shiftLeaf, hd]

mutual
theorem shiftTree_ne : ∀ (time : Bool) (k : Nat) (t t' : Tree), shiftTree time k t = some t' →
    t.dependsOn time = true → t' ≠ t
  | time, k, .leaf l, t', h, hd => by
    simp only [shiftTree, Option.map_eq_some_iff] at h
    obtain ⟨l', hl, rfl⟩ := h
    have := shiftLeaf_ne time k l l' hl (by simpa [Tree.dependsOn] using hd)
    simpa using this
  | time, k, .bin o a b, t', h, hd => by
    simp only [shiftTree] at h
    cases ha : shiftTree time k a <;> cases hb : shiftTree time k b <;> simp [ha, hb] at h
    subst h
    simp only [Tree.dependsOn, Bool.or_eq_true] at hd
    rcases hd with hd | hd
    · have := shiftTree_ne time k a _ ha hd
      simp [this]
    · have := shiftTree_ne time k b _ hb hd
      simp [this]
  | time, k, .eval f i as, t', h, hd => by
    simp only [shiftTree, Option.map_eq_some_iff] at h
    obtain ⟨as', has, rfl⟩ := h
    have := shiftArgs_ne time k as as' has (by simpa [Tree.dependsOn] using hd)
    simpa using this
theorem shiftArgs_ne : ∀ (time : Bool) (k : Nat) (a a' : Args), shiftArgs time k a = some a' →
    a.dependsOn time = true → a' ≠ a
  | time, k, .nil, a', h, hd => by simp [Args.dependsOn] at hd
  | time, k, .cons t ts, a', h, hd => by
    simp only [shiftArgs] at h
    cases ht : shiftTree time k t <;> cases hts : shiftArgs time k ts <;> simp [ht, hts] at h
    subst h
    simp only [Args.dependsOn, Bool.or_eq_true] at hd
    rcases hd with hd | hd
    · have := shiftTree_ne time k t _ ht hd
      simp [this]
    · have := shiftArgs_ne time k ts _ hts hd
      simp [this]
end

mutual
theorem shiftTree_nodep : ∀ (time : Bool) (k : Nat) (t : Tree), t.dependsOn time = false →
    shiftTree time k t = some t
  | time, k, .leaf l, hd => by
    simp [shiftTree, shiftLeaf_nodep time k l (by simpa [Tree.dependsOn] using hd)]
  | time, k, .bin o a b, hd => by
    simp only [Tree.dependsOn, Bool.or_eq_false_iff] at hd
    simp [shiftTree, shiftTree_nodep time k a hd.1, shiftTree_nodep time k b hd.2]
  | time, k, .eval f i as, hd => by
    simp [shiftTree, shiftArgs_nodep time k as (by simpa [Tree.dependsOn] using hd)]
theorem shiftArgs_nodep : ∀ (time : Bool) (k : Nat) (a : Args), a.dependsOn time = false →
    shiftArgs time k a = some a
  | time, k, .nil, _ => rfl
  | time, k, .cons t ts, hd => by
    simp only [Args.dependsOn, Bool.or_eq_false_iff] at hd
    simp [shiftArgs, shiftTree_nodep time k t hd.1, shiftArgs_nodep time k ts hd.2]
end

/-- the cached key, if any, is the key of the tree the object represents now -/
def Coherent (c : Cfg) (o : Obj) : Prop := o.cache = none ∨ o.cache = some (key c o.tree)

theorem getKey_spec (c : Cfg) (o : Obj) (h : Coherent c o) :
    (o.getKey c).1 = key c o.tree ∧ (o.getKey c).2.tree = o.tree ∧ Coherent c (o.getKey c).2 := by
  unfold Obj.getKey
  rcases h with h | h
  · simp [h, Coherent]
  · simp [h, Coherent]

/-- with both resets in place, an object behaves like its tree for every history of calls -/
theorem run_refines (c : Cfg) : ∀ (hs : List HOp) (o : Obj), Coherent c o →
    match Obj.run c ⟨true, true⟩ o hs, specRun c o.tree hs with
    | some (o', outs), some (t', outs') => o'.tree = t' ∧ outs = outs' ∧ Coherent c o'
    | none, none => True
    | _, _ => False := by
  intro hs
  induction hs with
  | nil => intro o h; simp [Obj.run, specRun, h]
  | cons hop hs ih =>
    intro o h
    cases hop with
    | key =>
      obtain ⟨h1, h2, h3⟩ := getKey_spec c o h
      have := ih (o.getKey c).2 h3
      rw [h2] at this
      simp only [Obj.run, Obj.step, specRun]
      cases hr : Obj.run c ⟨true, true⟩ (o.getKey c).2 hs <;> cases hsr : specRun c o.tree hs <;>
        simp [hr, hsr] at this ⊢
      obtain ⟨a, b, d⟩ := this
      exact ⟨a, by simp [h1, b], d⟩
    | shift time steps =>
      simp only [Obj.run, Obj.step, specRun]
      cases hsft : shiftTree time steps o.tree with
      | none => simp
      | some t' =>
        have hco : Coherent c ⟨t', if o.sameObject time then o.cache else none⟩ := by
          by_cases hso : o.sameObject time = true
          · have ht : t' = o.tree := by
              unfold Obj.sameObject at hso
              cases hot : o.tree with
              | leaf l =>
                rw [hot] at hso hsft
                have hd : l.dependsOn time = false := by simpa using hso
                simp [shiftTree, shiftLeaf_nodep time steps l hd] at hsft
                exact hsft.symm
              | bin o' a b => rw [hot] at hso; simp at hso
              | eval f i as => rw [hot] at hso; simp at hso
            simp only [hso, if_true]
            rcases h with h | h
            · exact Or.inl h
            · exact Or.inr (by rw [h, ht])
          · simp only [hso]
            exact Or.inl rfl
        have := ih ⟨t', if o.sameObject time then o.cache else none⟩ hco
        simp only [Option.map_some, if_true]
        cases hr : Obj.run c ⟨true, true⟩ ⟨t', if o.sameObject time then o.cache else none⟩ hs <;>
          cases hsr : specRun c t' hs <;> simp [hr, hsr] at this ⊢
        exact this
    | set r =>
      obtain ⟨t, cache⟩ := o
      have hscal : ∀ r0, Obj.run c ⟨true, true⟩ ⟨.leaf (.scalar r0), cache⟩ (.set r :: hs) =
          (match Obj.run c ⟨true, true⟩ ⟨.leaf (.scalar r), none⟩ hs with
           | none => none | some (o'', outs) => some (o'', outs)) := by
        intro r0
        simp only [Obj.run, Obj.step, Obj.setValue, if_true, Option.map_some]
        cases Obj.run c ⟨true, true⟩ ⟨.leaf (.scalar r), none⟩ hs <;> simp
      cases t with
      | leaf l =>
        cases l with
        | scalar r0 =>
          have := ih ⟨.leaf (.scalar r), none⟩ (Or.inl rfl)
          rw [hscal]
          simp only [specRun]
          cases hr : Obj.run c ⟨true, true⟩ ⟨.leaf (.scalar r), none⟩ hs <;>
            cases hsr : specRun c (.leaf (.scalar r)) hs <;> simp [hr, hsr] at this ⊢
          exact this
        | _ => simp [Obj.run, Obj.step, Obj.setValue, specRun]
      | _ => simp [Obj.run, Obj.step, Obj.setValue, specRun]


end PorepyVerif.C45
