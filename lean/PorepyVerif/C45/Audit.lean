import PorepyVerif.C45.Props
#print axioms PorepyVerif.C45.key_congr
#print axioms PorepyVerif.C45.key_prefix_code
#print axioms PorepyVerif.C45.key_injective
#print axioms PorepyVerif.C45.key_eq_iff
#print axioms PorepyVerif.C45.key_not_proper_prefix
#print axioms PorepyVerif.C45.leafKey_injective
#print axioms PorepyVerif.C45.domain_size_collides
#print axioms PorepyVerif.C45.abbreviated_indices_collide
#print axioms PorepyVerif.C45.evaluate_function_collides
#print axioms PorepyVerif.C45.evaluate_arity_collides
#print axioms PorepyVerif.C45.time_index_collides
#print axioms PorepyVerif.C45.projection_list_collides
#print axioms PorepyVerif.C45.domain_type_collides
#print axioms PorepyVerif.C45.dense_shape_collides
#print axioms PorepyVerif.C45.original_not_injective
