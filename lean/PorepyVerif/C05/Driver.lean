/- C05 line-protocol driver: `lake env lean --run PorepyVerif/C05/Driver.lean` -/
import PorepyVerif.Common.Wire
import PorepyVerif.C05.Model
open Lean PV PorepyVerif.C05

abbrev St := Env × State

def emptyEnv : Env := ⟨[], [], fun _ => 0, fun _ => 0, fun _ => 0⟩

def look (tbl : List (List Nat)) (col : Nat) (g : Nat) : Nat :=
  match tbl.find? (fun r => r.getD 0 0 == g) with
  | some r => r.getD col 0
  | none => 0

def jRef (j : Json) : R Ref := do
  let l ← jList jNat j
  match l with
  | [0, n] => pure (.name n)
  | [1, i] => pure (.var i)
  | _ => throw "bad ref"

def optField (f : Json → R α) (j : Json) (k : String) : R (Option α) := jOpt f (fieldD j k .null)

def fRefs (j : Json) : R (Option (List Ref)) := optField (jList jRef) j "refs"

def errName : Err → String
  | .value => "ValueError"
  | .key => "KeyError"
  | .assertion => "AssertionError"
  | .index => "IndexError"

def outJson : Except Err Out → Json
  | .error e => err (errName e)
  | .ok .unit => Json.str "ok"
  | .ok (.ids l) => obj [("ids", ofNats l)]
  | .ok (.rats l) => obj [("vals", ofRats l)]
  | .ok (.proj r c idx) => obj [("rows", ofNat r), ("cols", ofNat c), ("idx", ofNats idx)]
  | .ok (.num n) => obj [("num", ofNat n)]

def pair (j : Json) : R (Nat × Nat) := do
  let l ← jList jNat j
  match l with
  | [a, b] => pure (a, b)
  | _ => throw "bad pair"

def parseOp (j : Json) : R Op := do
  let op ← fStr j "op"
  match op with
  | "create" =>
    pure (.create (← fNat j "name") (← field j "dof" >>= jList pair)
      (← optField (jList jNat) j "subs") (← optField (jList jNat) j "intfs"))
  | "remove" => pure (.remove (← fRefs j))
  | "set" =>
    pure (.setVals (← fRats j "vals") (← fRefs j) (← optField jInt j "iter") (← optField jInt j "ts")
      (← fBool j "additive"))
  | "get" => pure (.getVals (← fRefs j) (← optField jInt j "iter") (← optField jInt j "ts"))
  | "dofs_of" => pure (.dofsOf (← fRefs j))
  | "identify" => pure (.identify (← fInt j "dof"))
  | "projection" => pure (.projection (← fRefs j))
  | "num_dofs" => pure .numDofs
  | "md_variable" => pure (.mdVariable (← fNat j "name") (← optField (jList jNat) j "domains"))
  | _ => throw s!"unknown op {op}"

def step' (st : St) (j : Json) : R (St × Json) := do
  let op ← fStr j "op"
  match op with
  | "init" =>
    let subs ← fNatss j "subs"
    let intfs ← fNatss j "intfs"
    let tbl := subs ++ intfs
    let e : Env := ⟨subs.map (·.getD 0 0), intfs.map (·.getD 0 0), look tbl 1, look tbl 2, look tbl 3⟩
    pure ((e, init), obj [("order_nodup", Json.bool (decide e.order.Nodup))])
  | "regrid" =>
    -- the entity counts of the grids changed (same md-grid listing); `update_variable_num_dofs()` is called
    let subs ← fNatss j "subs"
    let intfs ← fNatss j "intfs"
    let tbl := subs ++ intfs
    let e : Env := ⟨st.1.subs, st.1.intfs, look tbl 1, look tbl 2, look tbl 3⟩
    let r := step e st.2 .updateNumDofs
    pure ((e, r.1), outJson r.2)
  | "dump" =>
    let s := st.2
    pure (st, obj [
      ("vars", ofList (fun (v : Var) => ofNats [v.id, v.name, v.grid, v.c, v.f, v.n]) s.vars),
      ("numbers", ofList (fun (p : Nat × Nat) => ofNats [p.1, p.2]) s.numbers),
      ("sizes", ofNats s.sizes)])
  | "probe" =>
    -- dofs_of for every registered variable, identify_dof for every index in [-1, num_dofs]
    let s := st.2
    let one (r : Except Err (List Nat)) : Json := match r with
      | .ok l => ofNats l
      | .error e => Json.str (errName e)
    let idf (r : Except Err Nat) : Json := match r with
      | .ok i => ofNat i
      | .error e => Json.str (errName e)
    pure (st, obj [
      ("dofs", ofList (fun (v : Var) => Json.arr #[ofNat v.id, one (dofsOfIds s [v.id])]) s.vars),
      ("identify", ofList (fun (k : Nat) => idf (identify s ((k : Int) - 1))) (List.range (numDofs s + 2)))])
  | _ =>
    let o ← parseOp j
    let r := step st.1 st.2 o
    pure ((st.1, r.1), outJson r.2)

def main : IO Unit := runDriver ((emptyEnv, init) : St) step'
