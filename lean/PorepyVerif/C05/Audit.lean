import PorepyVerif.C05.Props
#print axioms PorepyVerif.C05.inv_step
#print axioms PorepyVerif.C05.inv_reachable
#print axioms PorepyVerif.C05.numbers_bijection
#print axioms PorepyVerif.C05.clustered_reachable
#print axioms PorepyVerif.C05.cluster_order
#print axioms PorepyVerif.C05.dofs_of_block
#print axioms PorepyVerif.C05.dofs_partition
#print axioms PorepyVerif.C05.identify_spec
#print axioms PorepyVerif.C05.identify_out_of_range
#print axioms PorepyVerif.C05.projection_selects
#print axioms PorepyVerif.C05.keys_unique_reachable
#print axioms PorepyVerif.C05.validateSet_nodup
#print axioms PorepyVerif.C05.set_get_roundtrip
#print axioms PorepyVerif.C05.set_get_additive
#print axioms PorepyVerif.C05.set_frame
#print axioms PorepyVerif.C05.get_order_irrelevant
#print axioms PorepyVerif.C05.get_is_projection_of_global
