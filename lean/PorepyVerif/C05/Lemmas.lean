/-
C05 — helper lemmas (property theorems are in Props.lean).
-/
import PorepyVerif.C05.Model
import Mathlib.Data.List.Basic
import Mathlib.Data.List.Perm.Basic
import Mathlib.Data.List.Nodup

namespace PorepyVerif.C05

/-! ### `numberFrom`, `numberOf` -/

@[simp] theorem map_fst_numberFrom (a : Nat) (l : List Nat) : (numberFrom a l).map (·.1) = l := by
  induction l generalizing a with
  | nil => rfl
  | cons i r ih => simp [numberFrom, ih]

@[simp] theorem length_numberFrom (a : Nat) (l : List Nat) : (numberFrom a l).length = l.length := by
  induction l generalizing a with
  | nil => rfl
  | cons i r ih => simp [numberFrom, ih]

theorem numberFrom_append (a : Nat) (l : List Nat) (i : Nat) :
    numberFrom a (l ++ [i]) = numberFrom a l ++ [(i, a + l.length)] := by
  induction l generalizing a with
  | nil => simp [numberFrom]
  | cons j r ih =>
    simp only [List.cons_append, numberFrom, ih, List.length_cons]
    have : a + 1 + r.length = a + (r.length + 1) := by omega
    rw [this]

theorem numberOf_isSome_iff (nums : List (Nat × Nat)) (i : Nat) :
    (numberOf nums i).isSome ↔ i ∈ nums.map (·.1) := by
  induction nums with
  | nil => simp [numberOf]
  | cons p r ih =>
    unfold numberOf
    by_cases h : p.1 = i
    · simp [h]
    · simp only [h, if_false, ih, List.map_cons, List.mem_cons]
      constructor
      · exact Or.inr
      · rintro (h' | h')
        · exact absurd h'.symm h
        · exact h'

theorem numberOf_eq_none_iff (nums : List (Nat × Nat)) (i : Nat) :
    numberOf nums i = none ↔ i ∉ nums.map (·.1) := by
  rw [← numberOf_isSome_iff]
  cases numberOf nums i <;> simp

theorem numberOf_append (n m : List (Nat × Nat)) (i : Nat) :
    numberOf (n ++ m) i = (numberOf n i).or (numberOf m i) := by
  induction n with
  | nil => simp [numberOf]
  | cons p r ih =>
    simp only [List.cons_append, numberOf]
    by_cases h : p.1 = i
    · simp [h]
    · simp [h, ih]

theorem numberOf_filter_ne (nums : List (Nat × Nat)) (i j : Nat) (h : i ≠ j) :
    numberOf (nums.filter (fun p => p.1 != j)) i = numberOf nums i := by
  induction nums with
  | nil => rfl
  | cons p r ih =>
    simp only [List.filter_cons]
    by_cases hp : p.1 = j
    · have hpi : ¬ p.1 = i := fun e => h (e.symm.trans hp)
      have hb : (p.1 != j) = false := by simp [hp]
      rw [hb]
      simp only [Bool.false_eq_true, if_false]
      rw [ih]
      simp only [numberOf, hpi, if_false]
    · have hb : (p.1 != j) = true := by simp [hp]
      rw [hb]
      simp only [if_true, numberOf]
      rw [ih]

/-- a hit in `numberFrom a l` is the position of the id in `l` -/
theorem numberOf_numberFrom_some (a : Nat) (l : List Nat) (i b : Nat)
    (h : numberOf (numberFrom a l) i = some b) : a ≤ b ∧ b < a + l.length ∧ l[b - a]? = some i := by
  induction l generalizing a with
  | nil => simp [numberFrom, numberOf] at h
  | cons j r ih =>
    simp only [numberFrom, numberOf] at h
    by_cases hj : j = i
    · simp only [hj, if_true, Option.some.injEq] at h
      subst h
      simp [hj]
    · simp only [hj, if_false] at h
      obtain ⟨h1, h2, h3⟩ := ih (a + 1) h
      refine ⟨by omega, by simp; omega, ?_⟩
      have : b - a = (b - (a + 1)) + 1 := by omega
      rw [this]
      simpa using h3

/-- in a duplicate-free list, the k-th id gets number `a + k` -/
theorem numberOf_numberFrom_idx (a : Nat) (l : List Nat) (hn : l.Nodup) (k : Nat) (hk : k < l.length) :
    numberOf (numberFrom a l) l[k] = some (a + k) := by
  induction l generalizing a k with
  | nil => simp at hk
  | cons j r ih =>
    cases k with
    | zero => simp [numberFrom, numberOf]
    | succ k =>
      have hk' : k < r.length := by simpa using hk
      have hne : j ≠ r[k] := by
        intro e
        have := (List.nodup_cons.mp hn).1
        exact this (e ▸ List.getElem_mem hk')
      simp only [numberFrom, numberOf, List.getElem_cons_succ, hne, if_false]
      rw [ih (a + 1) (List.nodup_cons.mp hn).2 k hk']
      congr 1
      omega

/-- entries with a given number -/
theorem filter_numberFrom (a : Nat) (l : List Nat) (k : Nat) (hk : k < l.length) :
    (numberFrom a l).filter (fun p => decide ((p.2 : Int) = ((a + k : Nat) : Int))) = [(l[k], a + k)] := by
  induction l generalizing a k with
  | nil => simp at hk
  | cons j r ih =>
    cases k with
    | zero =>
      simp only [numberFrom, List.filter_cons, Nat.add_zero, decide_true, if_true,
        List.getElem_cons_zero, List.cons.injEq, true_and]
      rw [List.filter_eq_nil_iff]
      intro p hp
      have : a + 1 ≤ p.2 := by
        clear ih hk
        induction r generalizing a with
        | nil => simp [numberFrom] at hp
        | cons x r ih2 =>
          simp only [numberFrom, List.mem_cons] at hp
          rcases hp with rfl | hp
          · simp
          · have := ih2 (a + 1) hp
            omega
      simp only [decide_eq_true_eq]
      omega
    | succ k =>
      have hk' : k < r.length := by simpa using hk
      have h1 : ¬ ((a : Int) = ((a + (k + 1) : Nat) : Int)) := by omega
      simp only [numberFrom, List.filter_cons, h1, decide_false, List.getElem_cons_succ]
      have := ih (a + 1) k hk'
      have e : a + 1 + k = a + (k + 1) := by omega
      rw [e] at this
      simpa using this

/-! ### the cluster order is a permutation -/

theorem filter_or_perm {α : Type} (p q : α → Bool) (l : List α) (hdisj : ∀ x, p x = true → q x = false) :
    (l.filter p ++ l.filter q).Perm (l.filter (fun x => p x || q x)) := by
  induction l with
  | nil => simp
  | cons a l ih =>
    cases hp : p a with
    | true =>
      have hq := hdisj a hp
      simp only [List.filter_cons, hp, hq, if_true, Bool.true_or, List.cons_append]
      simpa using List.Perm.cons a ih
    | false =>
      cases hq : q a with
      | true =>
        simp only [List.filter_cons, hp, hq, Bool.false_or, if_true]
        exact (List.perm_middle).trans (List.Perm.cons a ih)
      | false =>
        simpa [List.filter_cons, hp, hq] using ih

theorem flatMap_filter_perm (order : List Nat) (hn : order.Nodup) (vars : List Var) :
    (order.flatMap (fun g => vars.filter (fun v => v.grid == g))).Perm
      (vars.filter (fun v => order.contains v.grid)) := by
  induction order with
  | nil => simp
  | cons g gs ih =>
    have hg : g ∉ gs := (List.nodup_cons.mp hn).1
    have := ih (List.nodup_cons.mp hn).2
    simp only [List.flatMap_cons]
    refine (List.Perm.append_left _ this).trans ?_
    refine (filter_or_perm _ _ vars ?_).trans ?_
    · intro v hv
      have : v.grid = g := by simpa using hv
      simp [this, hg]
    · apply List.Perm.of_eq
      apply List.filter_congr
      intro v _
      by_cases h : v.grid = g
      · simp [h]
      · have : ¬ g = v.grid := fun e => h e.symm
        simp [h, this]

theorem clusterOrder_perm (e : Env) (hn : e.order.Nodup) (vars : List Var)
    (hk : ∀ v ∈ vars, v.grid ∈ e.order) : (clusterOrder e vars).Perm vars := by
  unfold clusterOrder
  rw [← List.flatMap_append]
  refine (flatMap_filter_perm _ hn vars).trans ?_
  apply List.Perm.of_eq
  rw [List.filter_eq_self]
  intro v hv
  simpa [Env.order] using hk v hv

theorem mem_clusterOrder (e : Env) (vars : List Var) (v : Var) :
    v ∈ clusterOrder e vars ↔ v ∈ vars ∧ v.grid ∈ e.order := by
  simp only [clusterOrder, Env.order, List.mem_append, List.mem_flatMap, List.mem_filter, beq_iff_eq]
  constructor
  · rintro (⟨g, hg, hv, rfl⟩ | ⟨g, hg, hv, rfl⟩)
    · exact ⟨hv, Or.inl hg⟩
    · exact ⟨hv, Or.inr hg⟩
  · rintro ⟨hv, hg | hg⟩
    · exact Or.inl ⟨_, hg, hv, rfl⟩
    · exact Or.inr ⟨_, hg, hv, rfl⟩

/-! ### the invariant is preserved -/

/-- what `_cluster_dofs_gridwise` needs from its input (the block numbers may have gaps) -/
structure PreInv (e : Env) (s : State) : Prop where
  perm : (s.numbers.map (·.1)).Perm (s.vars.map (·.id))
  idsLt : (s.vars.map (·.id)).Pairwise (· < ·)
  fresh : ∀ v ∈ s.vars, v.id < s.next
  kindOk : ∀ v ∈ s.vars, v.grid ∈ (if v.sub then e.subs else e.intfs)
  sizeOk : ∀ v ∈ s.vars, sizeOf s v.id = varSize e v

theorem Inv.pre {e : Env} {s : State} (h : Inv e s) : PreInv e s :=
  ⟨h.perm, h.idsLt, h.fresh, h.kindOk, h.sizeOk⟩

theorem kind_order (e : Env) (v : Var) (h : v.grid ∈ (if v.sub then e.subs else e.intfs)) :
    v.grid ∈ e.order := by
  unfold Env.order
  cases hs : v.sub <;> simp [hs] at h <;> simp [h]

theorem getD_map_of_id (ord : List Var) (g : Nat → Nat) (b i : Nat)
    (h : (ord.map (·.id))[b]? = some i) : (ord.map (fun w => g w.id)).getD b 0 = g i := by
  rw [List.getElem?_map] at h
  cases hw : ord[b]? with
  | none => simp [hw] at h
  | some w =>
    simp only [hw, Option.map_some, Option.some.injEq] at h
    simp [List.getD, List.getElem?_map, hw, h]

theorem cluster_inv (e : Env) (hn : e.order.Nodup) (s : State) (h : PreInv e s) :
    Inv e (cluster e s) := by
  have hp : (clusterOrder e s.vars).Perm s.vars :=
    clusterOrder_perm e hn s.vars (fun v hv => kind_order e v (h.kindOk v hv))
  refine ⟨?_, ?_, h.idsLt, h.fresh, ?_, h.kindOk, ?_⟩
  · simp [cluster]
  · simpa [cluster] using hp.map (·.id)
  · simp [cluster]
  · intro v hv
    have hmem : v.id ∈ (clusterOrder e s.vars).map (·.id) :=
      List.mem_map.mpr ⟨v, hp.mem_iff.mpr hv, rfl⟩
    have hs : (numberOf (numberFrom 0 ((clusterOrder e s.vars).map (·.id))) v.id).isSome := by
      rw [numberOf_isSome_iff]; simpa using hmem
    obtain ⟨b, hb⟩ := Option.isSome_iff_exists.mp hs
    obtain ⟨_, _, h3⟩ := numberOf_numberFrom_some 0 _ _ _ hb
    show (List.map (fun v => sizeOf s v.id) (clusterOrder e s.vars)).getD
      ((numberOf (numberFrom 0 ((clusterOrder e s.vars).map (·.id))) v.id).getD 0) 0 = varSize e v
    rw [hb]
    simp only [Option.getD_some]
    rw [getD_map_of_id _ (sizeOf s) b v.id (by simpa using h3)]
    exact h.sizeOk v hv

theorem numberOf_lt_of_numbered (nums : List (Nat × Nat)) (hnum : nums = numberFrom 0 (nums.map (·.1)))
    (i b : Nat) (h : numberOf nums i = some b) : b < nums.length := by
  rw [hnum] at h
  have := (numberOf_numberFrom_some 0 _ _ _ h).2.1
  simpa using this

theorem appendVar_inv (e : Env) (s : State) (v : Var) (h : Inv e s) (hid : v.id = s.next)
    (hk : v.grid ∈ (if v.sub then e.subs else e.intfs)) : Inv e (appendVar e s v) := by
  have hfresh : v.id ∉ s.numbers.map (·.1) := by
    intro hm
    have := h.perm.mem_iff.mp hm
    obtain ⟨w, hw, hwid⟩ := List.mem_map.mp this
    have := h.fresh w hw
    omega
  refine ⟨?_, ?_, ?_, ?_, ?_, ?_, ?_⟩
  · show s.numbers ++ [(v.id, s.numbers.length)] = numberFrom 0 ((s.numbers ++ [(v.id, s.numbers.length)]).map (·.1))
    rw [List.map_append, List.map_cons, List.map_nil, numberFrom_append, ← h.numbered]
    simp
  · show ((s.numbers ++ [(v.id, s.numbers.length)]).map (·.1)).Perm ((s.vars ++ [v]).map (·.id))
    simpa using h.perm.append_right [v.id]
  · show ((s.vars ++ [v]).map (·.id)).Pairwise (· < ·)
    rw [List.map_append, List.pairwise_append]
    refine ⟨h.idsLt, by simp, ?_⟩
    intro a ha b hb
    obtain ⟨w, hw, rfl⟩ := List.mem_map.mp ha
    have := h.fresh w hw
    simp at hb
    omega
  · intro w hw
    show w.id < s.next + 1
    rcases List.mem_append.mp hw with hw | hw
    · have := h.fresh w hw; omega
    · simp at hw; subst hw; omega
  · show (s.sizes ++ [varSize e v]).length = (s.numbers ++ [(v.id, s.numbers.length)]).length
    simp [h.sizesLen]
  · intro w hw
    rcases List.mem_append.mp hw with hw | hw
    · exact h.kindOk w hw
    · simp at hw; subst hw; exact hk
  · intro w hw
    show (s.sizes ++ [varSize e v]).getD ((numberOf (s.numbers ++ [(v.id, s.numbers.length)]) w.id).getD 0) 0 = varSize e w
    rw [numberOf_append]
    rcases List.mem_append.mp hw with hw | hw
    · have hm : w.id ∈ s.numbers.map (·.1) := h.perm.mem_iff.mpr (List.mem_map.mpr ⟨w, hw, rfl⟩)
      obtain ⟨b, hb⟩ := Option.isSome_iff_exists.mp ((numberOf_isSome_iff _ _).mpr hm)
      have hlt := numberOf_lt_of_numbered _ h.numbered _ _ hb
      rw [hb]
      simp only [Option.some_or, Option.getD_some]
      have := h.sizeOk w hw
      unfold sizeOf at this
      rw [hb] at this
      simp only [Option.getD_some] at this
      rw [← this]
      simp only [List.getD_eq_getElem?_getD]
      rw [List.getElem?_append_left (by rw [h.sizesLen]; exact hlt)]
    · simp at hw; subst hw
      rw [(numberOf_eq_none_iff _ _).mpr hfresh]
      simp [numberOf, ← h.sizesLen]

theorem pop_preinv (e : Env) (s : State) (i : Nat) (h : PreInv e s) :
    PreInv e { s with vars := s.vars.filter (fun v => v.id != i),
                      numbers := s.numbers.filter (fun p => p.1 != i) } := by
  refine ⟨?_, ?_, ?_, ?_, ?_⟩
  · show ((s.numbers.filter (fun p => p.1 != i)).map (·.1)).Perm ((s.vars.filter (fun v => v.id != i)).map (·.id))
    have e1 : (s.numbers.filter (fun p => p.1 != i)).map (·.1) = (s.numbers.map (·.1)).filter (· != i) := by
      rw [List.filter_map]; rfl
    have e2 : (s.vars.filter (fun v => v.id != i)).map (·.id) = (s.vars.map (·.id)).filter (· != i) := by
      rw [List.filter_map]; rfl
    rw [e1, e2]
    exact h.perm.filter _
  · show ((s.vars.filter (fun v => v.id != i)).map (·.id)).Pairwise (· < ·)
    exact List.Pairwise.sublist (List.Sublist.map _ List.filter_sublist) h.idsLt
  · intro v hv; exact h.fresh v (List.mem_of_mem_filter hv)
  · intro v hv; exact h.kindOk v (List.mem_of_mem_filter hv)
  · intro v hv
    have hne : v.id ≠ i := by simpa using (List.mem_filter.mp hv).2
    show s.sizes.getD ((numberOf (s.numbers.filter (fun p => p.1 != i)) v.id).getD 0) 0 = varSize e v
    rw [numberOf_filter_ne _ _ _ hne]
    exact h.sizeOk v (List.mem_of_mem_filter hv)

theorem inv_store (e : Env) (s : State) (st : Store) (h : Inv e s) : Inv e { s with store := st } :=
  ⟨h.numbered, h.perm, h.idsLt, h.fresh, h.sizesLen, h.kindOk, h.sizeOk⟩

theorem addLoop_inv (e : Env) (name : Nat) (dof : List (Nat × Nat)) (isSub : Bool)
    (gs : List Nat) (s : State) (h : Inv e s) : Inv e (addLoop e name dof isSub s gs).1 := by
  induction gs generalizing s with
  | nil => exact h
  | cons g gs ih =>
    by_cases hg : g ∈ (if isSub then e.subs else e.intfs)
    · rw [addLoop, if_pos hg]
      exact ih _ (appendVar_inv e s _ h rfl hg)
    · rw [addLoop, if_neg hg]
      by_cases h2 : g ∈ (if isSub then e.intfs else e.subs)
      · rw [if_pos h2]; exact h
      · rw [if_neg h2]; exact h

theorem createOn_inv (e : Env) (hn : e.order.Nodup) (s : State) (name : Nat) (dof : List (Nat × Nat))
    (isSub : Bool) (gs : List Nat) (h : Inv e s) : Inv e (createOn e s name dof isSub gs).1 := by
  unfold createOn
  split
  · exact h
  · have := addLoop_inv e name dof isSub gs s h
    split
    · rename_i s' err heq
      rw [heq] at this; exact this
    · rename_i s' heq
      rw [heq] at this
      have hc := cluster_inv e hn s' this.pre
      split <;> exact hc

theorem create_inv (e : Env) (hn : e.order.Nodup) (s : State) (name : Nat) (dof : List (Nat × Nat))
    (subs intfs : Option (List Nat)) (h : Inv e s) : Inv e (create e s name dof subs intfs).1 := by
  unfold create
  split
  · exact h
  · split
    · exact createOn_inv e hn s name dof true _ h
    · exact createOn_inv e hn s name dof false _ h
    · exact h

theorem removeLoop_inv (e : Env) (hn : e.order.Nodup) (ids : List Nat) (s : State) (h : Inv e s) :
    Inv e (removeLoop e s ids).1 := by
  induction ids generalizing s with
  | nil => exact h
  | cons i r ih =>
    unfold removeLoop
    split
    · exact ih _ (cluster_inv e hn _ (pop_preinv e s i h.pre))
    · exact h

theorem setValsIds_inv (e : Env) (s : State) (values : List Rat) (sel : List Nat)
    (slots : Except Err (List (Bool × Nat))) (additive : Bool) (h : Inv e s) :
    Inv e (setValsIds s values sel slots additive).1 := by
  unfold setValsIds
  split <;> exact inv_store e s _ h

/-! ### cumulative sums, block ranges -/

theorem cum_succ (sizes : List Nat) (b : Nat) (h : b < sizes.length) :
    cum sizes (b + 1) = cum sizes b + sizes[b] := by
  unfold cum
  rw [List.take_succ_eq_append_getElem h, List.sum_append]
  simp

theorem cum_le_succ (sizes : List Nat) (b : Nat) : cum sizes b ≤ cum sizes (b + 1) := by
  by_cases h : b < sizes.length
  · rw [cum_succ sizes b h]; omega
  · unfold cum
    rw [List.take_of_length_le (by omega), List.take_of_length_le (by omega)]
    exact Nat.le_refl _

theorem cum_mono (sizes : List Nat) (a b : Nat) (h : a ≤ b) : cum sizes a ≤ cum sizes b := by
  induction b with
  | zero =>
    have : a = 0 := by omega
    subst this; exact Nat.le_refl _
  | succ b ih =>
    by_cases hab : a = b + 1
    · subst hab; exact Nat.le_refl _
    · exact Nat.le_trans (ih (by omega)) (cum_le_succ sizes b)

@[simp] theorem cum_zero (sizes : List Nat) : cum sizes 0 = 0 := by simp [cum]

theorem cum_length (sizes : List Nat) : cum sizes sizes.length = sizes.sum := by simp [cum]

theorem blockRange_eq (sizes : List Nat) (b : Nat) (h : b < sizes.length) :
    blockRange sizes b = List.range' (cum sizes b) (sizes.getD b 0) := by
  unfold blockRange
  rw [cum_succ sizes b h]
  simp [List.getD_eq_getElem?_getD, List.getElem?_eq_getElem h]

theorem range'_glue (A B C : Nat) (h1 : A ≤ B) (h2 : B ≤ C) :
    List.range' A (B - A) ++ List.range' B (C - B) = List.range' A (C - A) := by
  obtain ⟨m, rfl⟩ := Nat.exists_eq_add_of_le h1
  obtain ⟨n, rfl⟩ := Nat.exists_eq_add_of_le h2
  have e1 : A + m - A = m := by omega
  have e2 : A + m + n - (A + m) = n := by omega
  have e3 : A + m + n - A = m + n := by omega
  rw [e1, e2, e3, List.range'_append_1]

theorem dofsOfIds_consecutive (s : State) (l : List Nat) (k : Nat)
    (hnum : ∀ j (hj : j < l.length), numberOf s.numbers l[j] = some (k + j)) :
    dofsOfIds s l = .ok (List.range' (cum s.sizes k) (cum s.sizes (k + l.length) - cum s.sizes k)) := by
  induction l generalizing k with
  | nil => simp [dofsOfIds]
  | cons i r ih =>
    have h0 := hnum 0 (by simp)
    simp only [List.getElem_cons_zero, Nat.add_zero] at h0
    have hr := ih (k + 1) (fun j hj => by
      have := hnum (j + 1) (by simpa using hj)
      simp only [List.getElem_cons_succ] at this
      rw [this]; congr 1; omega)
    simp only [dofsOfIds, h0, hr, blockRange]
    have m1 := cum_le_succ s.sizes k
    have m2 := cum_mono s.sizes (k + 1) (k + 1 + r.length) (by omega)
    have e2 : k + (r.length + 1) = k + 1 + r.length := by omega
    rw [range'_glue _ _ _ m1 m2, List.length_cons, e2]

theorem inv_nodup_ids {e : Env} {s : State} (h : Inv e s) : (s.numbers.map (·.1)).Nodup := by
  have : (s.vars.map (·.id)).Nodup :=
    h.idsLt.imp (fun hab => Nat.ne_of_lt hab)
  exact h.perm.nodup_iff.mpr this

theorem inv_numberOf_idx {e : Env} {s : State} (h : Inv e s) (k : Nat)
    (hk : k < (s.numbers.map (·.1)).length) :
    numberOf s.numbers (s.numbers.map (·.1))[k] = some k := by
  have := numberOf_numberFrom_idx 0 _ (inv_nodup_ids h) k hk
  rw [← h.numbered] at this
  simpa using this

theorem inv_numberOf_of_mem {e : Env} {s : State} (h : Inv e s) (v : Var) (hv : v ∈ s.vars) :
    ∃ b, numberOf s.numbers v.id = some b ∧ b < s.sizes.length ∧
      (s.numbers.map (·.1))[b]? = some v.id := by
  have hm : v.id ∈ s.numbers.map (·.1) := h.perm.mem_iff.mpr (List.mem_map.mpr ⟨v, hv, rfl⟩)
  obtain ⟨b, hb⟩ := Option.isSome_iff_exists.mp ((numberOf_isSome_iff _ _).mpr hm)
  refine ⟨b, hb, ?_, ?_⟩
  · rw [h.sizesLen]; exact numberOf_lt_of_numbered _ h.numbered _ _ hb
  · have hb' := hb
    rw [h.numbered] at hb'
    simpa using (numberOf_numberFrom_some 0 _ _ _ hb').2.2

/-! ### `identify_dof` -/

theorem cumList_head (a : Nat) (l : List Nat) : ∃ t, cumList a l = a :: t := by
  cases l with
  | nil => exact ⟨[], rfl⟩
  | cons x xs => exact ⟨cumList (a + x) xs, rfl⟩

theorem firstGt_cumList (sizes : List Nat) (acc d : Nat) (h1 : acc ≤ d) (h2 : d < acc + sizes.sum) :
    ∃ k, firstGt (d : Int) (cumList acc sizes) = some (k + 1) ∧ k < sizes.length ∧
      acc + (sizes.take k).sum ≤ d ∧ d < acc + (sizes.take (k + 1)).sum := by
  induction sizes generalizing acc with
  | nil => simp at h2; omega
  | cons x xs ih =>
    have hacc : ¬ ((d : Int) < (acc : Int)) := by omega
    simp only [cumList, firstGt, hacc, if_false]
    by_cases hx : d < acc + x
    · obtain ⟨t, ht⟩ := cumList_head (acc + x) xs
      have : ((d : Int) < ((acc + x : Nat) : Int)) := by omega
      refine ⟨0, ?_, by simp, by simp; omega, by simpa using hx⟩
      rw [ht]
      simp only [firstGt, if_pos this, Option.map_some]
    · have h2' : d < acc + x + xs.sum := by simp [List.sum_cons] at h2; omega
      obtain ⟨k, hk1, hk2, hk3, hk4⟩ := ih (acc + x) (by omega) h2'
      refine ⟨k + 1, ?_, by simpa using hk2, ?_, ?_⟩
      · rw [hk1]; rfl
      · simp only [List.take_succ_cons, List.sum_cons]; omega
      · simp only [List.take_succ_cons, List.sum_cons]; omega

theorem filter_id_singleton (vars : List Var) (hp : (vars.map (·.id)).Pairwise (· < ·)) (v : Var)
    (hv : v ∈ vars) : vars.filter (fun w => w.id == v.id) = [v] := by
  induction vars with
  | nil => cases hv
  | cons a r ih =>
    simp only [List.map_cons, List.pairwise_cons] at hp
    rcases List.mem_cons.mp hv with rfl | hv'
    · simp only [List.filter_cons, beq_self_eq_true, if_true, List.cons.injEq, true_and]
      rw [List.filter_eq_nil_iff]
      intro w hw
      have := hp.1 w.id (List.mem_map.mpr ⟨w, hw, rfl⟩)
      simp; omega
    · have hne : ¬ a.id = v.id := by
        have := hp.1 v.id (List.mem_map.mpr ⟨v, hv', rfl⟩)
        omega
      simp only [List.filter_cons, beq_iff_eq, hne, if_false]
      exact ih hp.2 hv'

theorem identify_ok {e : Env} {s : State} (h : Inv e s) (d : Nat) (hd : d < numDofs s) :
    ∃ v ∈ s.vars, ∃ b, identify s (d : Int) = .ok v.id ∧ numberOf s.numbers v.id = some b ∧
      b < s.sizes.length ∧ cum s.sizes b ≤ d ∧ d < cum s.sizes (b + 1) := by
  obtain ⟨k, hk1, hk2, hk3, hk4⟩ := firstGt_cumList s.sizes 0 d (Nat.zero_le _) (by simpa [numDofs] using hd)
  have hklen : k < (s.numbers.map (·.1)).length := by simpa [h.sizesLen] using hk2
  have hidmem : (s.numbers.map (·.1))[k] ∈ s.vars.map (·.id) :=
    h.perm.mem_iff.mp (List.getElem_mem hklen)
  obtain ⟨v, hv, hvid⟩ := List.mem_map.mp hidmem
  refine ⟨v, hv, k, ?_, ?_, hk2, by simpa [cum] using hk3, by simpa [cum] using hk4⟩
  · unfold identify
    have hr : (0 ≤ (d : Int) ∧ (d : Int) < (numDofs s : Int)) := ⟨by omega, by omega⟩
    simp only [hr, not_true_eq_false, if_false, and_self]
    rw [hk1]
    have hvn : (((some (k + 1)).getD 0 : Nat) : Int) - 1 = ((0 + k : Nat) : Int) := by simp
    rw [hvn]
    have hf := filter_numberFrom 0 (s.numbers.map (·.1)) k hklen
    rw [← h.numbered] at hf
    rw [hf]
    simp only [List.map_cons, List.map_nil]
    rw [← hvid, filter_id_singleton s.vars h.idsLt v hv]
  · rw [hvid]; exact inv_numberOf_idx h k hklen

/-! ### `np.sort` -/

theorem perm_insertSorted (a : Nat) (l : List Nat) : (insertSorted a l).Perm (a :: l) := by
  induction l with
  | nil => exact List.Perm.refl _
  | cons b l ih =>
    unfold insertSorted
    split
    · exact List.Perm.refl _
    · exact (List.Perm.cons b ih).trans (List.Perm.swap a b l)

theorem perm_isort (l : List Nat) : (isort l).Perm l := by
  induction l with
  | nil => exact List.Perm.refl _
  | cons a l ih => exact (perm_insertSorted a (isort l)).trans (List.Perm.cons a ih)

theorem sorted_insertSorted (a : Nat) (l : List Nat) (h : l.Pairwise (· ≤ ·)) :
    (insertSorted a l).Pairwise (· ≤ ·) := by
  induction l with
  | nil => simp [insertSorted]
  | cons b l ih =>
    unfold insertSorted
    split
    · rename_i hab
      refine List.pairwise_cons.mpr ⟨?_, h⟩
      intro c hc
      rcases List.mem_cons.mp hc with rfl | hc
      · exact hab
      · exact Nat.le_trans hab ((List.pairwise_cons.mp h).1 c hc)
    · rename_i hab
      refine List.pairwise_cons.mpr ⟨?_, ih (List.pairwise_cons.mp h).2⟩
      intro c hc
      rcases List.mem_cons.mp ((perm_insertSorted a l).mem_iff.mp hc) with rfl | hc
      · omega
      · exact (List.pairwise_cons.mp h).1 c hc

theorem sorted_isort (l : List Nat) : (isort l).Pairwise (· ≤ ·) := by
  induction l with
  | nil => simp [isort]
  | cons a l ih => exact sorted_insertSorted a _ ih

theorem strict_of_sorted_nodup (l : List Nat) (h : l.Pairwise (· ≤ ·)) (hn : l.Nodup) :
    l.Pairwise (· < ·) :=
  (h.and hn).imp (fun ⟨a, b⟩ => Nat.lt_of_le_of_ne a b)

/-! ### blocks are disjoint; `dofs_of` lists exactly the owned indices -/

theorem owns_unique {e : Env} {s : State} (h : Inv e s) (i i' d : Nat) (h1 : owns s i d) (h2 : owns s i' d) :
    i = i' := by
  obtain ⟨b, hb, l1, u1⟩ := h1
  obtain ⟨b', hb', l2, u2⟩ := h2
  have hbb : b = b' := by
    rcases Nat.lt_trichotomy b b' with hlt | heq | hgt
    · have := cum_mono s.sizes (b + 1) b' (by omega); omega
    · exact heq
    · have := cum_mono s.sizes (b' + 1) b (by omega); omega
  subst hbb
  rw [h.numbered] at hb hb'
  have a1 := (numberOf_numberFrom_some 0 _ _ _ hb).2.2
  have a2 := (numberOf_numberFrom_some 0 _ _ _ hb').2.2
  rw [a1] at a2
  exact Option.some.inj a2

theorem mem_blockRange (sizes : List Nat) (b d : Nat) :
    d ∈ blockRange sizes b ↔ cum sizes b ≤ d ∧ d < cum sizes (b + 1) := by
  unfold blockRange
  rw [List.mem_range'_1]
  have := cum_le_succ sizes b
  omega

theorem mem_dofsOfIds (s : State) (sel l : List Nat) (h : dofsOfIds s sel = .ok l) (d : Nat) :
    d ∈ l ↔ ∃ i ∈ sel, owns s i d := by
  induction sel generalizing l with
  | nil =>
    simp only [dofsOfIds, Except.ok.injEq] at h
    subst h; simp
  | cons i r ih =>
    unfold dofsOfIds at h
    cases hb : numberOf s.numbers i with
    | none => simp [hb] at h
    | some b =>
      cases hr : dofsOfIds s r with
      | error err => simp [hb, hr] at h
      | ok l' =>
        simp only [hb, hr, Except.ok.injEq] at h
        subst h
        rw [List.mem_append, ih l' hr, mem_blockRange]
        constructor
        · rintro (hd | ⟨j, hj, ho⟩)
          · exact ⟨i, List.mem_cons_self, b, hb, hd.1, hd.2⟩
          · exact ⟨j, List.mem_cons_of_mem _ hj, ho⟩
        · rintro ⟨j, hj, ho⟩
          rcases List.mem_cons.mp hj with rfl | hj
          · obtain ⟨b2, hb2, lo, hi⟩ := ho
            rw [hb] at hb2
            cases hb2
            exact Or.inl ⟨lo, hi⟩
          · exact Or.inr ⟨j, hj, ho⟩

theorem nodup_dofsOfIds {e : Env} {s : State} (hI : Inv e s) (sel l : List Nat) (hn : sel.Nodup)
    (h : dofsOfIds s sel = .ok l) : l.Nodup := by
  induction sel generalizing l with
  | nil =>
    simp only [dofsOfIds, Except.ok.injEq] at h
    subst h; simp
  | cons i r ih =>
    unfold dofsOfIds at h
    cases hb : numberOf s.numbers i with
    | none => simp [hb] at h
    | some b =>
      cases hr : dofsOfIds s r with
      | error err => simp [hb, hr] at h
      | ok l' =>
        simp only [hb, hr, Except.ok.injEq] at h
        subst h
        rw [List.nodup_append]
        refine ⟨List.nodup_range' 1, ih l' (List.nodup_cons.mp hn).2 hr, ?_⟩
        intro x hx y hy hxy
        subst hxy
        obtain ⟨j, hj, ho⟩ := (mem_dofsOfIds s r l' hr x).mp hy
        have hx' := (mem_blockRange s.sizes b x).mp hx
        have : i = j := owns_unique hI i j x ⟨b, hb, hx'.1, hx'.2⟩ ho
        subst this
        exact (List.nodup_cons.mp hn).1 hj

theorem dofsOfIds_isOk (s : State) (sel : List Nat) (h : ∀ i ∈ sel, i ∈ s.numbers.map (·.1)) :
    ∃ l, dofsOfIds s sel = .ok l := by
  induction sel with
  | nil => exact ⟨[], rfl⟩
  | cons i r ih =>
    obtain ⟨l', hl'⟩ := ih (fun j hj => h j (List.mem_cons_of_mem _ hj))
    obtain ⟨b, hb⟩ := Option.isSome_iff_exists.mp ((numberOf_isSome_iff _ _).mpr (h i List.mem_cons_self))
    exact ⟨blockRange s.sizes b ++ l', by simp [dofsOfIds, hb, hl']⟩

/-! ### cluster order -/

theorem pairwise_idxOf_lt (l : List Nat) (hn : l.Nodup) :
    l.Pairwise (fun a b => l.idxOf a < l.idxOf b) := by
  rw [List.pairwise_iff_getElem]
  intro i j hi hj hij
  rw [hn.idxOf_getElem i hi, hn.idxOf_getElem j hj]
  exact hij

theorem clusterOrder_pairwise (e : Env) (hn : e.order.Nodup) (vars : List Var)
    (hp : (vars.map (·.id)).Pairwise (· < ·)) :
    (clusterOrder e vars).Pairwise (fun v w =>
      gridPos e v.grid < gridPos e w.grid ∨ (v.grid = w.grid ∧ v.id < w.id)) := by
  unfold clusterOrder
  rw [← List.flatMap_append, List.pairwise_flatMap]
  constructor
  · intro g _
    have hp' : vars.Pairwise (fun a b => a.id < b.id) := List.pairwise_map.mp hp
    refine List.Pairwise.imp_of_mem ?_ (hp'.filter _)
    intro a b ha hb hab
    have ga : a.grid = g := by simpa using (List.mem_filter.mp ha).2
    have gb : b.grid = g := by simpa using (List.mem_filter.mp hb).2
    exact Or.inr ⟨ga.trans gb.symm, hab⟩
  · refine (pairwise_idxOf_lt _ hn).imp ?_
    intro g1 g2 hlt x hx y hy
    have gx : x.grid = g1 := by simpa using (List.mem_filter.mp hx).2
    have gy : y.grid = g2 := by simpa using (List.mem_filter.mp hy).2
    left
    unfold gridPos Env.order
    rw [gx, gy]; exact hlt

/-! ### `Clustered` and `KeysUnique` are preserved -/

theorem clustered_cluster (e : Env) (s : State) : Clustered e (cluster e s) := by
  simp [Clustered, cluster]

theorem addLoop_known (e : Env) (name : Nat) (dof : List (Nat × Nat)) (isSub : Bool) (gs : List Nat)
    (s : State) (hk : ∀ g ∈ gs, g ∈ (if isSub then e.subs else e.intfs)) :
    (addLoop e name dof isSub s gs).2 = none := by
  induction gs generalizing s with
  | nil => rfl
  | cons g gs ih =>
    rw [addLoop, if_pos (hk g List.mem_cons_self)]
    exact ih _ (fun x hx => hk x (List.mem_cons_of_mem _ hx))

theorem createOn_clustered (e : Env) (s : State) (name : Nat) (dof : List (Nat × Nat)) (isSub : Bool)
    (gs : List Nat) (hk : ∀ g ∈ gs, g ∈ (if isSub then e.subs else e.intfs)) (h : Clustered e s) :
    Clustered e (createOn e s name dof isSub gs).1 := by
  unfold createOn
  split
  · exact h
  · have hnone := addLoop_known e name dof isSub gs s hk
    split
    · rename_i s' err heq
      rw [heq] at hnone; cases hnone
    · split <;> exact clustered_cluster e _

theorem removeLoop_clustered (e : Env) (ids : List Nat) (s : State) (h : Clustered e s) :
    Clustered e (removeLoop e s ids).1 := by
  induction ids generalizing s with
  | nil => exact h
  | cons i r ih =>
    unfold removeLoop
    split
    · exact ih _ (clustered_cluster e _)
    · exact h

theorem clustered_store (e : Env) (s : State) (st : Store) (h : Clustered e s) :
    Clustered e { s with store := st } := h

theorem addLoop_keys (e : Env) (name : Nat) (dof : List (Nat × Nat)) (isSub : Bool) (gs : List Nat)
    (s : State) (hK : KeysUnique s) (hfree : ∀ v ∈ s.vars, v.name = name → v.grid ∉ gs)
    (hn : gs.Nodup) : KeysUnique (addLoop e name dof isSub s gs).1 := by
  induction gs generalizing s with
  | nil => exact hK
  | cons g gs ih =>
    by_cases hg : g ∈ (if isSub then e.subs else e.intfs)
    · rw [addLoop, if_pos hg]
      apply ih
      · show (s.vars ++ [_]).Pairwise _
        rw [List.pairwise_append]
        refine ⟨hK, by simp, ?_⟩
        intro v hv w hw
        simp only [List.mem_singleton] at hw
        subst hw
        rintro ⟨h1, h2⟩
        exact hfree v hv h1 (h2 ▸ List.mem_cons_self)
      · intro v hv hname
        rcases List.mem_append.mp hv with hv | hv
        · exact fun hm => hfree v hv hname (List.mem_cons_of_mem _ hm)
        · simp only [List.mem_singleton] at hv
          subst hv
          exact (List.nodup_cons.mp hn).1
      · exact (List.nodup_cons.mp hn).2
    · rw [addLoop, if_neg hg]
      by_cases h2 : g ∈ (if isSub then e.intfs else e.subs)
      · rw [if_pos h2]; exact hK
      · rw [if_neg h2]; exact hK

theorem keys_cluster (e : Env) (s : State) (h : KeysUnique s) : KeysUnique (cluster e s) := h

theorem createOn_keys (e : Env) (s : State) (name : Nat) (dof : List (Nat × Nat)) (isSub : Bool)
    (gs : List Nat) (hn : gs.Nodup) (h : KeysUnique s) : KeysUnique (createOn e s name dof isSub gs).1 := by
  unfold createOn
  split
  · exact h
  · rename_i hany
    have hfree : ∀ v ∈ s.vars, v.name = name → v.grid ∉ gs := by
      intro v hv hname hm
      apply hany
      rw [List.any_eq_true]
      exact ⟨v, hv, by simp [hname, hm]⟩
    have := addLoop_keys e name dof isSub gs s h hfree hn
    split
    · rename_i s' err heq
      rw [heq] at this; exact this
    · rename_i s' heq
      rw [heq] at this
      exact keys_cluster e s' this

theorem removeLoop_keys (e : Env) (ids : List Nat) (s : State) (h : KeysUnique s) :
    KeysUnique (removeLoop e s ids).1 := by
  induction ids generalizing s with
  | nil => exact h
  | cons i r ih =>
    unfold removeLoop
    split
    · apply ih
      apply keys_cluster
      exact List.Pairwise.sublist List.filter_sublist h
    · exact h

end PorepyVerif.C05
