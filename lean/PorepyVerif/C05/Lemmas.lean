/-
C05 — helper lemmas (property theorems are in Props.lean).
-/
import PorepyVerif.C05.Model

namespace PorepyVerif.C05

/-! ### `numberFrom`, `numberOf` -/

@[simp] theorem map_fst_numberFrom (a : Nat) (l : List Nat) : (numberFrom a l).map (·.1) = l := by
  induction l generalizing a with
  | nil => rfl
  | cons i r ih => simp [numberFrom, ih]

@[simp] theorem length_numberFrom (a : Nat) (l : List Nat) : (numberFrom a l).length = l.length := by
  induction l generalizing a with
  | nil => rfl
  | cons i r ih => simp [numberFrom, ih]

theorem numberFrom_append (a : Nat) (l : List Nat) (i : Nat) :
    numberFrom a (l ++ [i]) = numberFrom a l ++ [(i, a + l.length)] := by
  induction l generalizing a with
  | nil => simp [numberFrom]
  | cons j r ih =>
    simp only [List.cons_append, numberFrom, ih, List.length_cons]
    have : a + 1 + r.length = a + (r.length + 1) := by omega
    rw [this]

theorem numberOf_isSome_iff (nums : List (Nat × Nat)) (i : Nat) :
    (numberOf nums i).isSome ↔ i ∈ nums.map (·.1) := by
  induction nums with
  | nil => simp [numberOf]
  | cons p r ih =>
    unfold numberOf
    by_cases h : p.1 = i
    · simp [h]
    · simp only [h, if_false, ih, List.map_cons, List.mem_cons]
      constructor
      · exact Or.inr
      · rintro (h' | h')
        · exact absurd h'.symm h
        · exact h'

theorem numberOf_eq_none_iff (nums : List (Nat × Nat)) (i : Nat) :
    numberOf nums i = none ↔ i ∉ nums.map (·.1) := by
  rw [← numberOf_isSome_iff]
  cases numberOf nums i <;> simp

theorem numberOf_append (n m : List (Nat × Nat)) (i : Nat) :
    numberOf (n ++ m) i = (numberOf n i).or (numberOf m i) := by
  induction n with
  | nil => simp [numberOf]
  | cons p r ih =>
    simp only [List.cons_append, numberOf]
    by_cases h : p.1 = i
    · simp [h]
    · simp [h, ih]

theorem numberOf_filter_ne (nums : List (Nat × Nat)) (i j : Nat) (h : i ≠ j) :
    numberOf (nums.filter (fun p => p.1 != j)) i = numberOf nums i := by
  induction nums with
  | nil => rfl
  | cons p r ih =>
    simp only [List.filter_cons]
    by_cases hp : p.1 = j
    · have hpi : ¬ p.1 = i := fun e => h (e.symm.trans hp)
      have hb : (p.1 != j) = false := by simp [hp]
      rw [hb]
      simp only [Bool.false_eq_true, if_false]
      rw [ih]
      simp only [numberOf, hpi, if_false]
    · have hb : (p.1 != j) = true := by simp [hp]
      rw [hb]
      simp only [if_true, numberOf]
      rw [ih]

/-- a hit in `numberFrom a l` is the position of the id in `l` -/
theorem numberOf_numberFrom_some (a : Nat) (l : List Nat) (i b : Nat)
    (h : numberOf (numberFrom a l) i = some b) : a ≤ b ∧ b < a + l.length ∧ l[b - a]? = some i := by
  induction l generalizing a with
  | nil => simp [numberFrom, numberOf] at h
  | cons j r ih =>
    simp only [numberFrom, numberOf] at h
    by_cases hj : j = i
    · simp only [hj, if_true, Option.some.injEq] at h
      subst h
      simp [hj]
    · simp only [hj, if_false] at h
      obtain ⟨h1, h2, h3⟩ := ih (a + 1) h
      refine ⟨by omega, by simp; omega, ?_⟩
      have : b - a = (b - (a + 1)) + 1 := by omega
      rw [this]
      simpa using h3

/-- in a duplicate-free list, the k-th id gets number `a + k` -/
theorem numberOf_numberFrom_idx (a : Nat) (l : List Nat) (hn : l.Nodup) (k : Nat) (hk : k < l.length) :
    numberOf (numberFrom a l) l[k] = some (a + k) := by
  induction l generalizing a k with
  | nil => simp at hk
  | cons j r ih =>
    cases k with
    | zero => simp [numberFrom, numberOf]
    | succ k =>
      have hk' : k < r.length := by simpa using hk
      have hne : j ≠ r[k] := by
        intro e
        have := (List.nodup_cons.mp hn).1
        exact this (e ▸ List.getElem_mem hk')
      simp only [numberFrom, numberOf, List.getElem_cons_succ, hne, if_false]
      rw [ih (a + 1) (List.nodup_cons.mp hn).2 k hk']
      congr 1
      omega

/-- entries with a given number -/
theorem filter_numberFrom (a : Nat) (l : List Nat) (k : Nat) (hk : k < l.length) :
    (numberFrom a l).filter (fun p => decide ((p.2 : Int) = ((a + k : Nat) : Int))) = [(l[k], a + k)] := by
  induction l generalizing a k with
  | nil => simp at hk
  | cons j r ih =>
    cases k with
    | zero =>
      simp only [numberFrom, List.filter_cons, Nat.add_zero, decide_true, if_true,
        List.getElem_cons_zero, List.cons.injEq, true_and]
      rw [List.filter_eq_nil_iff]
      intro p hp
      have : a + 1 ≤ p.2 := by
        clear ih hk
        induction r generalizing a with
        | nil => simp [numberFrom] at hp
        | cons x r ih2 =>
          simp only [numberFrom, List.mem_cons] at hp
          rcases hp with rfl | hp
          · simp
          · have := ih2 (a + 1) hp
            omega
      simp only [decide_eq_true_eq]
      omega
    | succ k =>
      have hk' : k < r.length := by simpa using hk
      have h1 : ¬ ((a : Int) = ((a + (k + 1) : Nat) : Int)) := by omega
      simp only [numberFrom, List.filter_cons, h1, decide_false, List.getElem_cons_succ]
      have := ih (a + 1) k hk'
      have e : a + 1 + k = a + (k + 1) := by omega
      rw [e] at this
      simpa using this

/-! ### the cluster order is a permutation -/

theorem filter_or_perm {α : Type} (p q : α → Bool) (l : List α) (hdisj : ∀ x, p x = true → q x = false) :
    (l.filter p ++ l.filter q).Perm (l.filter (fun x => p x || q x)) := by
  induction l with
  | nil => simp
  | cons a l ih =>
    cases hp : p a with
    | true =>
      have hq := hdisj a hp
      simp only [List.filter_cons, hp, hq, if_true, Bool.true_or, List.cons_append]
      simpa using List.Perm.cons a ih
    | false =>
      cases hq : q a with
      | true =>
        simp only [List.filter_cons, hp, hq, Bool.false_or, if_true]
        exact (List.perm_middle).trans (List.Perm.cons a ih)
      | false =>
        simpa [List.filter_cons, hp, hq] using ih

theorem flatMap_filter_perm (order : List Nat) (hn : order.Nodup) (vars : List Var) :
    (order.flatMap (fun g => vars.filter (fun v => v.grid == g))).Perm
      (vars.filter (fun v => order.contains v.grid)) := by
  induction order with
  | nil => simp
  | cons g gs ih =>
    have hg : g ∉ gs := (List.nodup_cons.mp hn).1
    have := ih (List.nodup_cons.mp hn).2
    simp only [List.flatMap_cons]
    refine (List.Perm.append_left _ this).trans ?_
    refine (filter_or_perm _ _ vars ?_).trans ?_
    · intro v hv
      have : v.grid = g := by simpa using hv
      simp [this, hg]
    · apply List.Perm.of_eq
      apply List.filter_congr
      intro v _
      by_cases h : v.grid = g
      · simp [h]
      · have : ¬ g = v.grid := fun e => h e.symm
        simp [h, this]

theorem clusterOrder_perm (e : Env) (hn : e.order.Nodup) (vars : List Var)
    (hk : ∀ v ∈ vars, v.grid ∈ e.order) : (clusterOrder e vars).Perm vars := by
  unfold clusterOrder
  rw [← List.flatMap_append]
  refine (flatMap_filter_perm _ hn vars).trans ?_
  apply List.Perm.of_eq
  rw [List.filter_eq_self]
  intro v hv
  simpa [Env.order] using hk v hv

theorem mem_clusterOrder (e : Env) (vars : List Var) (v : Var) :
    v ∈ clusterOrder e vars ↔ v ∈ vars ∧ v.grid ∈ e.order := by
  simp only [clusterOrder, Env.order, List.mem_append, List.mem_flatMap, List.mem_filter, beq_iff_eq]
  constructor
  · rintro (⟨g, hg, hv, rfl⟩ | ⟨g, hg, hv, rfl⟩)
    · exact ⟨hv, Or.inl hg⟩
    · exact ⟨hv, Or.inr hg⟩
  · rintro ⟨hv, hg | hg⟩
    · exact Or.inl ⟨_, hg, hv, rfl⟩
    · exact Or.inr ⟨_, hg, hv, rfl⟩

/-! ### the invariant is preserved -/

/-- what `_cluster_dofs_gridwise` needs from its input (the block numbers may have gaps) -/
structure PreInv (e : Env) (s : State) : Prop where
  perm : (s.numbers.map (·.1)).Perm (s.vars.map (·.id))
  idsLt : (s.vars.map (·.id)).Pairwise (· < ·)
  fresh : ∀ v ∈ s.vars, v.id < s.next
  kindOk : ∀ v ∈ s.vars, v.grid ∈ (if v.sub then e.subs else e.intfs)
  sizeOk : ∀ v ∈ s.vars, sizeOf s v.id = varSize e v

theorem Inv.pre {e : Env} {s : State} (h : Inv e s) : PreInv e s :=
  ⟨h.perm, h.idsLt, h.fresh, h.kindOk, h.sizeOk⟩

theorem kind_order (e : Env) (v : Var) (h : v.grid ∈ (if v.sub then e.subs else e.intfs)) :
    v.grid ∈ e.order := by
  unfold Env.order
  cases hs : v.sub <;> simp [hs] at h <;> simp [h]

theorem getD_map_of_id (ord : List Var) (g : Nat → Nat) (b i : Nat)
    (h : (ord.map (·.id))[b]? = some i) : (ord.map (fun w => g w.id)).getD b 0 = g i := by
  rw [List.getElem?_map] at h
  cases hw : ord[b]? with
  | none => simp [hw] at h
  | some w =>
    simp only [hw, Option.map_some, Option.some.injEq] at h
    simp [List.getD, List.getElem?_map, hw, h]

theorem cluster_inv (e : Env) (hn : e.order.Nodup) (s : State) (h : PreInv e s) :
    Inv e (cluster e s) := by
  have hp : (clusterOrder e s.vars).Perm s.vars :=
    clusterOrder_perm e hn s.vars (fun v hv => kind_order e v (h.kindOk v hv))
  refine ⟨?_, ?_, h.idsLt, h.fresh, ?_, h.kindOk, ?_⟩
  · simp [cluster]
  · simpa [cluster] using hp.map (·.id)
  · simp [cluster]
  · intro v hv
    have hmem : v.id ∈ (clusterOrder e s.vars).map (·.id) :=
      List.mem_map.mpr ⟨v, hp.mem_iff.mpr hv, rfl⟩
    have hs : (numberOf (numberFrom 0 ((clusterOrder e s.vars).map (·.id))) v.id).isSome := by
      rw [numberOf_isSome_iff]; simpa using hmem
    obtain ⟨b, hb⟩ := Option.isSome_iff_exists.mp hs
    obtain ⟨_, _, h3⟩ := numberOf_numberFrom_some 0 _ _ _ hb
    show (List.map (fun v => sizeOf s v.id) (clusterOrder e s.vars)).getD
      ((numberOf (numberFrom 0 ((clusterOrder e s.vars).map (·.id))) v.id).getD 0) 0 = varSize e v
    rw [hb]
    simp only [Option.getD_some]
    rw [getD_map_of_id _ (sizeOf s) b v.id (by simpa using h3)]
    exact h.sizeOk v hv

theorem numberOf_lt_of_numbered (nums : List (Nat × Nat)) (hnum : nums = numberFrom 0 (nums.map (·.1)))
    (i b : Nat) (h : numberOf nums i = some b) : b < nums.length := by
  rw [hnum] at h
  have := (numberOf_numberFrom_some 0 _ _ _ h).2.1
  simpa using this

theorem appendVar_inv (e : Env) (s : State) (v : Var) (h : Inv e s) (hid : v.id = s.next)
    (hk : v.grid ∈ (if v.sub then e.subs else e.intfs)) : Inv e (appendVar e s v) := by
  have hfresh : v.id ∉ s.numbers.map (·.1) := by
    intro hm
    have := h.perm.mem_iff.mp hm
    obtain ⟨w, hw, hwid⟩ := List.mem_map.mp this
    have := h.fresh w hw
    omega
  refine ⟨?_, ?_, ?_, ?_, ?_, ?_, ?_⟩
  · show s.numbers ++ [(v.id, s.numbers.length)] = numberFrom 0 ((s.numbers ++ [(v.id, s.numbers.length)]).map (·.1))
    rw [List.map_append, List.map_cons, List.map_nil, numberFrom_append, ← h.numbered]
    simp
  · show ((s.numbers ++ [(v.id, s.numbers.length)]).map (·.1)).Perm ((s.vars ++ [v]).map (·.id))
    simpa using h.perm.append_right [v.id]
  · show ((s.vars ++ [v]).map (·.id)).Pairwise (· < ·)
    rw [List.map_append, List.pairwise_append]
    refine ⟨h.idsLt, by simp, ?_⟩
    intro a ha b hb
    obtain ⟨w, hw, rfl⟩ := List.mem_map.mp ha
    have := h.fresh w hw
    simp at hb
    omega
  · intro w hw
    show w.id < s.next + 1
    rcases List.mem_append.mp hw with hw | hw
    · have := h.fresh w hw; omega
    · simp at hw; subst hw; omega
  · show (s.sizes ++ [varSize e v]).length = (s.numbers ++ [(v.id, s.numbers.length)]).length
    simp [h.sizesLen]
  · intro w hw
    rcases List.mem_append.mp hw with hw | hw
    · exact h.kindOk w hw
    · simp at hw; subst hw; exact hk
  · intro w hw
    show (s.sizes ++ [varSize e v]).getD ((numberOf (s.numbers ++ [(v.id, s.numbers.length)]) w.id).getD 0) 0 = varSize e w
    rw [numberOf_append]
    rcases List.mem_append.mp hw with hw | hw
    · have hm : w.id ∈ s.numbers.map (·.1) := h.perm.mem_iff.mpr (List.mem_map.mpr ⟨w, hw, rfl⟩)
      obtain ⟨b, hb⟩ := Option.isSome_iff_exists.mp ((numberOf_isSome_iff _ _).mpr hm)
      have hlt := numberOf_lt_of_numbered _ h.numbered _ _ hb
      rw [hb]
      simp only [Option.some_or, Option.getD_some]
      have := h.sizeOk w hw
      unfold sizeOf at this
      rw [hb] at this
      simp only [Option.getD_some] at this
      rw [← this]
      simp only [List.getD_eq_getElem?_getD]
      rw [List.getElem?_append_left (by rw [h.sizesLen]; exact hlt)]
    · simp at hw; subst hw
      rw [(numberOf_eq_none_iff _ _).mpr hfresh]
      simp [numberOf, ← h.sizesLen]

theorem pop_preinv (e : Env) (s : State) (i : Nat) (h : PreInv e s) :
    PreInv e { s with vars := s.vars.filter (fun v => v.id != i),
                      numbers := s.numbers.filter (fun p => p.1 != i) } := by
  refine ⟨?_, ?_, ?_, ?_, ?_⟩
  · show ((s.numbers.filter (fun p => p.1 != i)).map (·.1)).Perm ((s.vars.filter (fun v => v.id != i)).map (·.id))
    have e1 : (s.numbers.filter (fun p => p.1 != i)).map (·.1) = (s.numbers.map (·.1)).filter (· != i) := by
      rw [List.filter_map]; rfl
    have e2 : (s.vars.filter (fun v => v.id != i)).map (·.id) = (s.vars.map (·.id)).filter (· != i) := by
      rw [List.filter_map]; rfl
    rw [e1, e2]
    exact h.perm.filter _
  · show ((s.vars.filter (fun v => v.id != i)).map (·.id)).Pairwise (· < ·)
    exact List.Pairwise.sublist (List.Sublist.map _ List.filter_sublist) h.idsLt
  · intro v hv; exact h.fresh v ((List.mem_filter.mp hv).1)
  · intro v hv; exact h.kindOk v ((List.mem_filter.mp hv).1)
  · intro v hv
    have hne : v.id ≠ i := by simpa using (List.mem_filter.mp hv).2
    show s.sizes.getD ((numberOf (s.numbers.filter (fun p => p.1 != i)) v.id).getD 0) 0 = varSize e v
    rw [numberOf_filter_ne _ _ _ hne]
    exact h.sizeOk v ((List.mem_filter.mp hv).1)

theorem inv_store (e : Env) (s : State) (st : Store) (h : Inv e s) : Inv e { s with store := st } :=
  ⟨h.numbered, h.perm, h.idsLt, h.fresh, h.sizesLen, h.kindOk, h.sizeOk⟩

theorem addLoop_inv (e : Env) (name : Nat) (dof : List (Nat × Nat)) (isSub : Bool)
    (gs : List Nat) (s : State) (h : Inv e s) : Inv e (addLoop e name dof isSub s gs).1 := by
  induction gs generalizing s with
  | nil => exact h
  | cons g gs ih =>
    by_cases hg : g ∈ (if isSub then e.subs else e.intfs)
    · rw [addLoop, if_pos hg]
      exact ih _ (appendVar_inv e s _ h rfl hg)
    · rw [addLoop, if_neg hg]
      by_cases h2 : g ∈ (if isSub then e.intfs else e.subs)
      · rw [if_pos h2]; exact h
      · rw [if_neg h2]; exact h

theorem createOn_inv (e : Env) (hn : e.order.Nodup) (s : State) (name : Nat) (dof : List (Nat × Nat))
    (isSub : Bool) (gs : List Nat) (h : Inv e s) : Inv e (createOn e s name dof isSub gs).1 := by
  unfold createOn
  split
  · exact h
  · have := addLoop_inv e name dof isSub gs s h
    split
    · rename_i s' err heq
      rw [heq] at this; exact this
    · rename_i s' heq
      rw [heq] at this
      have hc := cluster_inv e hn s' this.pre
      split <;> exact hc

theorem create_inv (e : Env) (hn : e.order.Nodup) (s : State) (name : Nat) (dof : List (Nat × Nat))
    (subs intfs : Option (List Nat)) (h : Inv e s) : Inv e (create e s name dof subs intfs).1 := by
  unfold create
  split
  · exact h
  · split
    · exact createOn_inv e hn s name dof true _ h
    · exact createOn_inv e hn s name dof false _ h
    · exact h

theorem removeLoop_inv (e : Env) (hn : e.order.Nodup) (ids : List Nat) (s : State) (h : Inv e s) :
    Inv e (removeLoop e s ids).1 := by
  induction ids generalizing s with
  | nil => exact h
  | cons i r ih =>
    unfold removeLoop
    split
    · exact ih _ (cluster_inv e hn _ (pop_preinv e s i h.pre))
    · exact h

theorem setValsIds_inv (e : Env) (s : State) (values : List Rat) (sel : List Nat)
    (slots : Except Err (List (Bool × Nat))) (additive : Bool) (h : Inv e s) :
    Inv e (setValsIds s values sel slots additive).1 := by
  unfold setValsIds
  split <;> exact inv_store e s _ h

/-! ### cumulative sums, block ranges -/

theorem cum_succ (sizes : List Nat) (b : Nat) (h : b < sizes.length) :
    cum sizes (b + 1) = cum sizes b + sizes[b] := by
  unfold cum
  rw [List.take_succ_eq_append_getElem h, List.sum_append]
  simp

theorem cum_le_succ (sizes : List Nat) (b : Nat) : cum sizes b ≤ cum sizes (b + 1) := by
  by_cases h : b < sizes.length
  · rw [cum_succ sizes b h]; omega
  · unfold cum
    rw [List.take_of_length_le (by omega), List.take_of_length_le (by omega)]
    exact Nat.le_refl _

theorem cum_mono (sizes : List Nat) (a b : Nat) (h : a ≤ b) : cum sizes a ≤ cum sizes b := by
  induction b with
  | zero =>
    have : a = 0 := by omega
    subst this; exact Nat.le_refl _
  | succ b ih =>
    by_cases hab : a = b + 1
    · subst hab; exact Nat.le_refl _
    · exact Nat.le_trans (ih (by omega)) (cum_le_succ sizes b)

@[simp] theorem cum_zero (sizes : List Nat) : cum sizes 0 = 0 := by simp [cum]

theorem cum_length (sizes : List Nat) : cum sizes sizes.length = sizes.sum := by simp [cum]

theorem blockRange_eq (sizes : List Nat) (b : Nat) (h : b < sizes.length) :
    blockRange sizes b = List.range' (cum sizes b) (sizes.getD b 0) := by
  unfold blockRange
  rw [cum_succ sizes b h]
  simp [List.getD_eq_getElem?_getD, List.getElem?_eq_getElem h]

theorem range'_glue (A B C : Nat) (h1 : A ≤ B) (h2 : B ≤ C) :
    List.range' A (B - A) ++ List.range' B (C - B) = List.range' A (C - A) := by
  obtain ⟨m, rfl⟩ := Nat.exists_eq_add_of_le h1
  obtain ⟨n, rfl⟩ := Nat.exists_eq_add_of_le h2
  have e1 : A + m - A = m := by omega
  have e2 : A + m + n - (A + m) = n := by omega
  have e3 : A + m + n - A = m + n := by omega
  rw [e1, e2, e3, List.range'_append_1]

theorem dofsOfIds_consecutive (s : State) (l : List Nat) (k : Nat)
    (hnum : ∀ j (hj : j < l.length), numberOf s.numbers l[j] = some (k + j)) :
    dofsOfIds s l = .ok (List.range' (cum s.sizes k) (cum s.sizes (k + l.length) - cum s.sizes k)) := by
  induction l generalizing k with
  | nil => simp [dofsOfIds]
  | cons i r ih =>
    have h0 := hnum 0 (by simp)
    simp only [List.getElem_cons_zero, Nat.add_zero] at h0
    have hr := ih (k + 1) (fun j hj => by
      have := hnum (j + 1) (by simpa using hj)
      simp only [List.getElem_cons_succ] at this
      rw [this]; congr 1; omega)
    simp only [dofsOfIds, h0, hr, blockRange]
    have m1 := cum_le_succ s.sizes k
    have m2 := cum_mono s.sizes (k + 1) (k + 1 + r.length) (by omega)
    have e2 : k + (r.length + 1) = k + 1 + r.length := by omega
    rw [range'_glue _ _ _ m1 m2, List.length_cons, e2]

theorem inv_nodup_ids {e : Env} {s : State} (h : Inv e s) : (s.numbers.map (·.1)).Nodup := by
  have : (s.vars.map (·.id)).Nodup :=
    h.idsLt.imp (fun hab => Nat.ne_of_lt hab)
  exact h.perm.nodup_iff.mpr this

theorem inv_numberOf_idx {e : Env} {s : State} (h : Inv e s) (k : Nat)
    (hk : k < (s.numbers.map (·.1)).length) :
    numberOf s.numbers (s.numbers.map (·.1))[k] = some k := by
  have := numberOf_numberFrom_idx 0 _ (inv_nodup_ids h) k hk
  rw [← h.numbered] at this
  simpa using this

theorem inv_numberOf_of_mem {e : Env} {s : State} (h : Inv e s) (v : Var) (hv : v ∈ s.vars) :
    ∃ b, numberOf s.numbers v.id = some b ∧ b < s.sizes.length ∧
      (s.numbers.map (·.1))[b]? = some v.id := by
  have hm : v.id ∈ s.numbers.map (·.1) := h.perm.mem_iff.mpr (List.mem_map.mpr ⟨v, hv, rfl⟩)
  obtain ⟨b, hb⟩ := Option.isSome_iff_exists.mp ((numberOf_isSome_iff _ _).mpr hm)
  refine ⟨b, hb, ?_, ?_⟩
  · rw [h.sizesLen]; exact numberOf_lt_of_numbered _ h.numbered _ _ hb
  · have hb' := hb
    rw [h.numbered] at hb'
    simpa using (numberOf_numberFrom_some 0 _ _ _ hb').2.2

/-! ### `identify_dof` -/

theorem cumList_head (a : Nat) (l : List Nat) : ∃ t, cumList a l = a :: t := by
  cases l with
  | nil => exact ⟨[], rfl⟩
  | cons x xs => exact ⟨cumList (a + x) xs, rfl⟩

theorem firstGt_cumList (sizes : List Nat) (acc d : Nat) (h1 : acc ≤ d) (h2 : d < acc + sizes.sum) :
    ∃ k, firstGt (d : Int) (cumList acc sizes) = some (k + 1) ∧ k < sizes.length ∧
      acc + (sizes.take k).sum ≤ d ∧ d < acc + (sizes.take (k + 1)).sum := by
  induction sizes generalizing acc with
  | nil => simp at h2; omega
  | cons x xs ih =>
    have hacc : ¬ ((d : Int) < (acc : Int)) := by omega
    simp only [cumList, firstGt, hacc, if_false]
    by_cases hx : d < acc + x
    · obtain ⟨t, ht⟩ := cumList_head (acc + x) xs
      have : ((d : Int) < ((acc + x : Nat) : Int)) := by omega
      refine ⟨0, ?_, by simp, by simp; omega, by simpa using hx⟩
      rw [ht]
      simp only [firstGt, if_pos this, Option.map_some]
    · have h2' : d < acc + x + xs.sum := by simp [List.sum_cons] at h2; omega
      obtain ⟨k, hk1, hk2, hk3, hk4⟩ := ih (acc + x) (by omega) h2'
      refine ⟨k + 1, ?_, by simpa using hk2, ?_, ?_⟩
      · rw [hk1]; rfl
      · simp only [List.take_succ_cons, List.sum_cons]; omega
      · simp only [List.take_succ_cons, List.sum_cons]; omega

theorem filter_id_singleton (vars : List Var) (hp : (vars.map (·.id)).Pairwise (· < ·)) (v : Var)
    (hv : v ∈ vars) : vars.filter (fun w => w.id == v.id) = [v] := by
  induction vars with
  | nil => cases hv
  | cons a r ih =>
    simp only [List.map_cons, List.pairwise_cons] at hp
    rcases List.mem_cons.mp hv with rfl | hv'
    · simp only [List.filter_cons, beq_self_eq_true, if_true, List.cons.injEq, true_and]
      rw [List.filter_eq_nil_iff]
      intro w hw
      have := hp.1 w.id (List.mem_map.mpr ⟨w, hw, rfl⟩)
      simp; omega
    · have hne : ¬ a.id = v.id := by
        have := hp.1 v.id (List.mem_map.mpr ⟨v, hv', rfl⟩)
        omega
      simp only [List.filter_cons, beq_iff_eq, hne, if_false]
      exact ih hp.2 hv'

theorem identify_ok {e : Env} {s : State} (h : Inv e s) (d : Nat) (hd : d < numDofs s) :
    ∃ v ∈ s.vars, ∃ b, identify s (d : Int) = .ok v.id ∧ numberOf s.numbers v.id = some b ∧
      b < s.sizes.length ∧ cum s.sizes b ≤ d ∧ d < cum s.sizes (b + 1) := by
  obtain ⟨k, hk1, hk2, hk3, hk4⟩ := firstGt_cumList s.sizes 0 d (Nat.zero_le _) (by simpa [numDofs] using hd)
  have hklen : k < (s.numbers.map (·.1)).length := by simpa [h.sizesLen] using hk2
  have hidmem : (s.numbers.map (·.1))[k] ∈ s.vars.map (·.id) :=
    h.perm.mem_iff.mp (List.getElem_mem hklen)
  obtain ⟨v, hv, hvid⟩ := List.mem_map.mp hidmem
  refine ⟨v, hv, k, ?_, ?_, hk2, by simpa [cum] using hk3, by simpa [cum] using hk4⟩
  · unfold identify
    have hr : (0 ≤ (d : Int) ∧ (d : Int) < (numDofs s : Int)) := ⟨by omega, by omega⟩
    simp only [hr, not_true_eq_false, if_false, and_self]
    rw [hk1]
    have hvn : (((some (k + 1)).getD 0 : Nat) : Int) - 1 = ((0 + k : Nat) : Int) := by simp
    rw [hvn]
    have hf := filter_numberFrom 0 (s.numbers.map (·.1)) k hklen
    rw [← h.numbered] at hf
    rw [hf]
    simp only [List.map_cons, List.map_nil]
    rw [← hvid, filter_id_singleton s.vars h.idsLt v hv]
  · rw [hvid]; exact inv_numberOf_idx h k hklen

/-! ### `np.sort` -/

theorem perm_insertSorted (a : Nat) (l : List Nat) : (insertSorted a l).Perm (a :: l) := by
  induction l with
  | nil => exact List.Perm.refl _
  | cons b l ih =>
    unfold insertSorted
    split
    · exact List.Perm.refl _
    · exact (List.Perm.cons b ih).trans (List.Perm.swap a b l)

theorem perm_isort (l : List Nat) : (isort l).Perm l := by
  induction l with
  | nil => exact List.Perm.refl _
  | cons a l ih => exact (perm_insertSorted a (isort l)).trans (List.Perm.cons a ih)

theorem sorted_insertSorted (a : Nat) (l : List Nat) (h : l.Pairwise (· ≤ ·)) :
    (insertSorted a l).Pairwise (· ≤ ·) := by
  induction l with
  | nil => simp [insertSorted]
  | cons b l ih =>
    unfold insertSorted
    split
    · rename_i hab
      refine List.pairwise_cons.mpr ⟨?_, h⟩
      intro c hc
      rcases List.mem_cons.mp hc with rfl | hc
      · exact hab
      · exact Nat.le_trans hab ((List.pairwise_cons.mp h).1 c hc)
    · rename_i hab
      refine List.pairwise_cons.mpr ⟨?_, ih (List.pairwise_cons.mp h).2⟩
      intro c hc
      rcases List.mem_cons.mp ((perm_insertSorted a l).mem_iff.mp hc) with rfl | hc
      · omega
      · exact (List.pairwise_cons.mp h).1 c hc

theorem sorted_isort (l : List Nat) : (isort l).Pairwise (· ≤ ·) := by
  induction l with
  | nil => simp [isort]
  | cons a l ih => exact sorted_insertSorted a _ ih

theorem strict_of_sorted_nodup (l : List Nat) (h : l.Pairwise (· ≤ ·)) (hn : l.Nodup) :
    l.Pairwise (· < ·) :=
  (h.and hn).imp (fun ⟨a, b⟩ => Nat.lt_of_le_of_ne a b)

/-! ### blocks are disjoint; `dofs_of` lists exactly the owned indices -/

theorem owns_unique {e : Env} {s : State} (h : Inv e s) (i i' d : Nat) (h1 : owns s i d) (h2 : owns s i' d) :
    i = i' := by
  obtain ⟨b, hb, l1, u1⟩ := h1
  obtain ⟨b', hb', l2, u2⟩ := h2
  have hbb : b = b' := by
    rcases Nat.lt_trichotomy b b' with hlt | heq | hgt
    · have := cum_mono s.sizes (b + 1) b' (by omega); omega
    · exact heq
    · have := cum_mono s.sizes (b' + 1) b (by omega); omega
  subst hbb
  rw [h.numbered] at hb hb'
  have a1 := (numberOf_numberFrom_some 0 _ _ _ hb).2.2
  have a2 := (numberOf_numberFrom_some 0 _ _ _ hb').2.2
  rw [a1] at a2
  exact Option.some.inj a2

theorem mem_blockRange (sizes : List Nat) (b d : Nat) :
    d ∈ blockRange sizes b ↔ cum sizes b ≤ d ∧ d < cum sizes (b + 1) := by
  unfold blockRange
  rw [List.mem_range'_1]
  have := cum_le_succ sizes b
  omega

theorem mem_dofsOfIds (s : State) (sel l : List Nat) (h : dofsOfIds s sel = .ok l) (d : Nat) :
    d ∈ l ↔ ∃ i ∈ sel, owns s i d := by
  induction sel generalizing l with
  | nil =>
    simp only [dofsOfIds, Except.ok.injEq] at h
    subst h; simp
  | cons i r ih =>
    unfold dofsOfIds at h
    cases hb : numberOf s.numbers i with
    | none => simp [hb] at h
    | some b =>
      cases hr : dofsOfIds s r with
      | error err => simp [hb, hr] at h
      | ok l' =>
        simp only [hb, hr, Except.ok.injEq] at h
        subst h
        rw [List.mem_append, ih l' hr, mem_blockRange]
        constructor
        · rintro (hd | ⟨j, hj, ho⟩)
          · exact ⟨i, List.mem_cons_self, b, hb, hd.1, hd.2⟩
          · exact ⟨j, List.mem_cons_of_mem _ hj, ho⟩
        · rintro ⟨j, hj, ho⟩
          rcases List.mem_cons.mp hj with rfl | hj
          · obtain ⟨b2, hb2, lo, hi⟩ := ho
            rw [hb] at hb2
            cases hb2
            exact Or.inl ⟨lo, hi⟩
          · exact Or.inr ⟨j, hj, ho⟩

theorem nodup_dofsOfIds {e : Env} {s : State} (hI : Inv e s) (sel l : List Nat) (hn : sel.Nodup)
    (h : dofsOfIds s sel = .ok l) : l.Nodup := by
  induction sel generalizing l with
  | nil =>
    simp only [dofsOfIds, Except.ok.injEq] at h
    subst h; simp
  | cons i r ih =>
    unfold dofsOfIds at h
    cases hb : numberOf s.numbers i with
    | none => simp [hb] at h
    | some b =>
      cases hr : dofsOfIds s r with
      | error err => simp [hb, hr] at h
      | ok l' =>
        simp only [hb, hr, Except.ok.injEq] at h
        subst h
        rw [List.nodup_append]
        refine ⟨List.nodup_range' 1, ih l' (List.nodup_cons.mp hn).2 hr, ?_⟩
        intro x hx y hy hxy
        subst hxy
        obtain ⟨j, hj, ho⟩ := (mem_dofsOfIds s r l' hr x).mp hy
        have hx' := (mem_blockRange s.sizes b x).mp hx
        have : i = j := owns_unique hI i j x ⟨b, hb, hx'.1, hx'.2⟩ ho
        subst this
        exact (List.nodup_cons.mp hn).1 hj

theorem dofsOfIds_isOk (s : State) (sel : List Nat) (h : ∀ i ∈ sel, i ∈ s.numbers.map (·.1)) :
    ∃ l, dofsOfIds s sel = .ok l := by
  induction sel with
  | nil => exact ⟨[], rfl⟩
  | cons i r ih =>
    obtain ⟨l', hl'⟩ := ih (fun j hj => h j (List.mem_cons_of_mem _ hj))
    obtain ⟨b, hb⟩ := Option.isSome_iff_exists.mp ((numberOf_isSome_iff _ _).mpr (h i List.mem_cons_self))
    exact ⟨blockRange s.sizes b ++ l', by simp [dofsOfIds, hb, hl']⟩

/-! ### cluster order -/

theorem pairwise_idxOf_lt (l : List Nat) (hn : l.Nodup) :
    l.Pairwise (fun a b => l.idxOf a < l.idxOf b) := by
  rw [List.pairwise_iff_getElem]
  intro i j hi hj hij
  rw [hn.idxOf_getElem i hi, hn.idxOf_getElem j hj]
  exact hij

theorem clusterOrder_pairwise (e : Env) (hn : e.order.Nodup) (vars : List Var)
    (hp : (vars.map (·.id)).Pairwise (· < ·)) :
    (clusterOrder e vars).Pairwise (fun v w =>
      gridPos e v.grid < gridPos e w.grid ∨ (v.grid = w.grid ∧ v.id < w.id)) := by
  unfold clusterOrder
  rw [← List.flatMap_append, List.pairwise_flatMap]
  constructor
  · intro g _
    have hp' : vars.Pairwise (fun a b => a.id < b.id) := List.pairwise_map.mp hp
    refine List.Pairwise.imp_of_mem ?_ (hp'.filter _)
    intro a b ha hb hab
    have ga : a.grid = g := by simpa using (List.mem_filter.mp ha).2
    have gb : b.grid = g := by simpa using (List.mem_filter.mp hb).2
    exact Or.inr ⟨ga.trans gb.symm, hab⟩
  · refine (pairwise_idxOf_lt _ hn).imp ?_
    intro g1 g2 hlt x hx y hy
    have gx : x.grid = g1 := by simpa using (List.mem_filter.mp hx).2
    have gy : y.grid = g2 := by simpa using (List.mem_filter.mp hy).2
    left
    unfold gridPos Env.order
    rw [gx, gy]; exact hlt

/-! ### `Clustered` and `KeysUnique` are preserved -/

theorem clustered_cluster (e : Env) (s : State) : Clustered e (cluster e s) := by
  simp [Clustered, cluster]

theorem addLoop_known (e : Env) (name : Nat) (dof : List (Nat × Nat)) (isSub : Bool) (gs : List Nat)
    (s : State) (hk : ∀ g ∈ gs, g ∈ (if isSub then e.subs else e.intfs)) :
    (addLoop e name dof isSub s gs).2 = none := by
  induction gs generalizing s with
  | nil => rfl
  | cons g gs ih =>
    rw [addLoop, if_pos (hk g List.mem_cons_self)]
    exact ih _ (fun x hx => hk x (List.mem_cons_of_mem _ hx))

theorem createOn_clustered (e : Env) (s : State) (name : Nat) (dof : List (Nat × Nat)) (isSub : Bool)
    (gs : List Nat) (hk : ∀ g ∈ gs, g ∈ (if isSub then e.subs else e.intfs)) (h : Clustered e s) :
    Clustered e (createOn e s name dof isSub gs).1 := by
  unfold createOn
  split
  · exact h
  · have hnone := addLoop_known e name dof isSub gs s hk
    split
    · rename_i s' err heq
      rw [heq] at hnone; cases hnone
    · split <;> exact clustered_cluster e _

theorem removeLoop_clustered (e : Env) (ids : List Nat) (s : State) (h : Clustered e s) :
    Clustered e (removeLoop e s ids).1 := by
  induction ids generalizing s with
  | nil => exact h
  | cons i r ih =>
    unfold removeLoop
    split
    · exact ih _ (clustered_cluster e _)
    · exact h

theorem clustered_store (e : Env) (s : State) (st : Store) (h : Clustered e s) :
    Clustered e { s with store := st } := h

theorem addLoop_keys (e : Env) (name : Nat) (dof : List (Nat × Nat)) (isSub : Bool) (gs : List Nat)
    (s : State) (hK : KeysUnique s) (hfree : ∀ v ∈ s.vars, v.name = name → v.grid ∉ gs)
    (hn : gs.Nodup) : KeysUnique (addLoop e name dof isSub s gs).1 := by
  induction gs generalizing s with
  | nil => exact hK
  | cons g gs ih =>
    by_cases hg : g ∈ (if isSub then e.subs else e.intfs)
    · rw [addLoop, if_pos hg]
      apply ih
      · show (s.vars ++ [_]).Pairwise _
        rw [List.pairwise_append]
        refine ⟨hK, by simp, ?_⟩
        intro v hv w hw
        simp only [List.mem_singleton] at hw
        subst hw
        rintro ⟨h1, h2⟩
        exact hfree v hv h1 (h2 ▸ List.mem_cons_self)
      · intro v hv hname
        rcases List.mem_append.mp hv with hv | hv
        · exact fun hm => hfree v hv hname (List.mem_cons_of_mem _ hm)
        · simp only [List.mem_singleton] at hv
          subst hv
          exact (List.nodup_cons.mp hn).1
      · exact (List.nodup_cons.mp hn).2
    · rw [addLoop, if_neg hg]
      by_cases h2 : g ∈ (if isSub then e.intfs else e.subs)
      · rw [if_pos h2]; exact hK
      · rw [if_neg h2]; exact hK

theorem keys_cluster (e : Env) (s : State) (h : KeysUnique s) : KeysUnique (cluster e s) := h

theorem createOn_keys (e : Env) (s : State) (name : Nat) (dof : List (Nat × Nat)) (isSub : Bool)
    (gs : List Nat) (hn : gs.Nodup) (h : KeysUnique s) : KeysUnique (createOn e s name dof isSub gs).1 := by
  unfold createOn
  split
  · exact h
  · rename_i hany
    have hfree : ∀ v ∈ s.vars, v.name = name → v.grid ∉ gs := by
      intro v hv hname hm
      apply hany
      rw [List.any_eq_true]
      exact ⟨v, hv, by simp [hname, hm]⟩
    have := addLoop_keys e name dof isSub gs s h hfree hn
    split
    · rename_i s' err heq
      rw [heq] at this; exact this
    · rename_i s' heq
      rw [heq] at this
      exact keys_cluster e s' this

theorem removeLoop_keys (e : Env) (ids : List Nat) (s : State) (h : KeysUnique s) :
    KeysUnique (removeLoop e s ids).1 := by
  induction ids generalizing s with
  | nil => exact h
  | cons i r ih =>
    unfold removeLoop
    split
    · apply ih
      apply keys_cluster
      exact List.Pairwise.sublist List.filter_sublist h
    · exact h

/-! ### storage: `set_variable_values` / `get_variable_values` -/

/-- number of values consumed by the blocks of `nums` that are selected -/
def selSize (sizes sel : List Nat) (nums : List (Nat × Nat)) : Nat :=
  ((nums.filter (fun p => p.1 ∈ sel)).map (fun p => sizes.getD p.2 0)).sum

theorem selectedSize_eq (s : State) (sel : List Nat) : selectedSize s sel = selSize s.sizes sel s.numbers := rfl

theorem selSize_cons_pos (sizes sel : List Nat) (p : Nat × Nat) (r : List (Nat × Nat)) (h : p.1 ∈ sel) :
    selSize sizes sel (p :: r) = sizes.getD p.2 0 + selSize sizes sel r := by
  simp [selSize, h]

theorem selSize_cons_neg (sizes sel : List Nat) (p : Nat × Nat) (r : List (Nat × Nat)) (h : p.1 ∉ sel) :
    selSize sizes sel (p :: r) = selSize sizes sel r := by
  simp [selSize, h]

theorem keyOf_eq_iff (v w : Var) (a b : Bool × Nat) :
    keyOf v a = keyOf w b ↔ (v.grid = w.grid ∧ v.name = w.name ∧ a = b) := by
  simp only [keyOf, Key.mk.injEq, Prod.ext_iff]
  constructor
  · rintro ⟨h1, h2, h3, h4⟩; exact ⟨h1, h3, h2, h4⟩
  · rintro ⟨h1, h3, h2, h4⟩; exact ⟨h1, h2, h3, h4⟩

theorem findVar_some (vars : List Var) (i : Nat) (v : Var) (h : findVar vars i = some v) :
    v ∈ vars ∧ v.id = i := by
  induction vars with
  | nil => simp [findVar] at h
  | cons a r ih =>
    unfold findVar at h
    by_cases ha : a.id = i
    · simp only [ha, if_true, Option.some.injEq] at h
      subst h; exact ⟨List.mem_cons_self, ha⟩
    · simp only [ha, if_false] at h
      exact ⟨List.mem_cons_of_mem _ (ih h).1, (ih h).2⟩

theorem findVar_of_mem_ids (vars : List Var) (i : Nat) (h : i ∈ vars.map (·.id)) :
    ∃ v, findVar vars i = some v := by
  induction vars with
  | nil => simp at h
  | cons a r ih =>
    unfold findVar
    by_cases ha : a.id = i
    · exact ⟨a, by simp [ha]⟩
    · simp only [ha, if_false]
      apply ih
      simp only [List.map_cons, List.mem_cons] at h
      rcases h with h | h
      · exact absurd h.symm ha
      · exact h

theorem put_same (st : Store) (k : Key) (x : List Rat) : st.put k x k = some x := by simp [Store.put]

theorem put_other (st : Store) (k k' : Key) (x : List Rat) (h : k' ≠ k) : st.put k x k' = st k' := by
  simp [Store.put, h]

theorem writeOne_frame (st : Store) (k : Key) (a : Bool) (x : List Rat) (k' : Key) (h : k' ≠ k) :
    (writeOne st k a x).1 k' = st k' := by
  unfold writeOne
  cases a with
  | false => simp [put_other _ _ _ _ h]
  | true =>
    simp only [if_true]
    cases st k with
    | none => rfl
    | some old =>
      simp only
      cases addVec old x with
      | none => rfl
      | some r => simp [put_other _ _ _ _ h]

theorem writeSlots_frame (v : Var) (a : Bool) (x : List Rat) (sl : List (Bool × Nat)) (st : Store) (k' : Key)
    (h : ∀ s' ∈ sl, k' ≠ keyOf v s') : (writeSlots st v a x sl).1 k' = st k' := by
  induction sl generalizing st with
  | nil => rfl
  | cons s0 rest ih =>
    unfold writeSlots
    have h0 := writeOne_frame st (keyOf v s0) a x k' (h s0 List.mem_cons_self)
    rcases hw : writeOne st (keyOf v s0) a x with ⟨st1, _ | err⟩
    · rw [hw] at h0
      simp only
      rw [ih st1 (fun s' hs => h s' (List.mem_cons_of_mem _ hs))]
      exact h0
    · rw [hw] at h0
      exact h0

theorem writeOne_ok (st : Store) (k : Key) (a : Bool) (x : List Rat)
    (hadd : a = true → ∃ o, st k = some o ∧ o.length = x.length) :
    writeOne st k a x =
      (st.put k (if a then List.zipWith (· + ·) ((st k).getD []) x else x), none) := by
  unfold writeOne
  cases a with
  | false => simp
  | true =>
    obtain ⟨o, ho, hlen⟩ := hadd rfl
    simp [ho, addVec, hlen]

theorem writeSlots_spec (v : Var) (a : Bool) (x : List Rat) (sl : List (Bool × Nat)) (hn : sl.Nodup)
    (st : Store) (hadd : a = true → ∀ s' ∈ sl, ∃ o, st (keyOf v s') = some o ∧ o.length = x.length) :
    (writeSlots st v a x sl).2 = none ∧
    ∀ s' ∈ sl, (writeSlots st v a x sl).1 (keyOf v s') =
      some (if a then List.zipWith (· + ·) ((st (keyOf v s')).getD []) x else x) := by
  induction sl generalizing st with
  | nil => exact ⟨rfl, by simp⟩
  | cons s0 rest ih =>
    have hs0 : s0 ∉ rest := (List.nodup_cons.mp hn).1
    have hne : ∀ s' ∈ rest, keyOf v s' ≠ keyOf v s0 := by
      intro s' hs' he
      have := ((keyOf_eq_iff v v s' s0).mp he).2.2
      exact hs0 (this ▸ hs')
    have hw := writeOne_ok st (keyOf v s0) a x (fun ha => hadd ha s0 List.mem_cons_self)
    have hstep : writeSlots st v a x (s0 :: rest) =
        writeSlots (st.put (keyOf v s0) (if a then List.zipWith (· + ·) ((st (keyOf v s0)).getD []) x else x))
          v a x rest := by
      rw [writeSlots, hw]
    rw [hstep]
    obtain ⟨i1, i2⟩ := ih (List.nodup_cons.mp hn).2
      (st.put (keyOf v s0) (if a then List.zipWith (· + ·) ((st (keyOf v s0)).getD []) x else x)) (by
      intro ha s' hs'
      rw [put_other _ _ _ _ (hne s' hs')]
      exact hadd ha s' (List.mem_cons_of_mem _ hs'))
    refine ⟨i1, ?_⟩
    intro s' hs'
    rcases List.mem_cons.mp hs' with rfl | hs'
    · rw [writeSlots_frame v a x rest _ _ (fun s'' hs'' => (hne s'' hs'').symm), put_same]
    · rw [i2 s' hs', put_other _ _ _ _ (hne s' hs')]

/-! equation lemmas for the two loops -/

theorem setLoop_cons_neg (vars : List Var) (sizes sel : List Nat) (slots : Except Err (List (Bool × Nat)))
    (a : Bool) (values : List Rat) (st : Store) (start : Nat) (p : Nat × Nat) (rest : List (Nat × Nat))
    (hp : p.1 ∉ sel) :
    setLoop vars sizes sel slots a values st start (p :: rest) =
      setLoop vars sizes sel slots a values st start rest := by
  rw [setLoop, if_neg hp]

theorem setLoop_cons_pos (vars : List Var) (sizes sel : List Nat) (sl : List (Bool × Nat))
    (a : Bool) (values : List Rat) (st : Store) (start : Nat) (p : Nat × Nat) (rest : List (Nat × Nat))
    (hp : p.1 ∈ sel) (v : Var) (hv : findVar vars p.1 = some v)
    (hw : (writeSlots st v a ((values.drop start).take (sizes.getD p.2 0)) sl).2 = none) :
    setLoop vars sizes sel (.ok sl) a values st start (p :: rest) =
      setLoop vars sizes sel (.ok sl) a values
        (writeSlots st v a ((values.drop start).take (sizes.getD p.2 0)) sl).1
        (start + sizes.getD p.2 0) rest := by
  rw [setLoop, if_pos hp]
  simp only [hv]
  rcases hws : writeSlots st v a ((values.drop start).take (sizes.getD p.2 0)) sl with ⟨st1, _ | err⟩
  · rfl
  · rw [hws] at hw; cases hw

theorem getLoop_cons_neg (vars : List Var) (st : Store) (sel : List Nat) (slot : Except Err (Bool × Nat))
    (p : Nat × Nat) (rest : List (Nat × Nat)) (hp : p.1 ∉ sel) :
    getLoop vars st sel slot (p :: rest) = getLoop vars st sel slot rest := by
  rw [getLoop, if_neg hp]

theorem getLoop_cons_pos (vars : List Var) (st : Store) (sel : List Nat) (slot : Bool × Nat)
    (p : Nat × Nat) (rest : List (Nat × Nat)) (hp : p.1 ∈ sel) (v : Var) (hv : findVar vars p.1 = some v)
    (x : List Rat) (hx : st (keyOf v slot) = some x) :
    getLoop vars st sel (.ok slot) (p :: rest) =
      match getLoop vars st sel (.ok slot) rest with
      | .error err => .error err
      | .ok l => .ok (x ++ l) := by
  rw [getLoop, if_pos hp]
  simp only [hv, hx]
  cases getLoop vars st sel (.ok slot) rest <;> rfl

theorem setLoop_frame (vars : List Var) (sizes sel : List Nat) (slots : Except Err (List (Bool × Nat)))
    (a : Bool) (values : List Rat) (k' : Key) (nums : List (Nat × Nat)) (st : Store) (start : Nat)
    (h : ∀ p ∈ nums, p.1 ∈ sel → ∀ v, findVar vars p.1 = some v → ∀ sl, slots = .ok sl →
      ∀ s' ∈ sl, k' ≠ keyOf v s') :
    (setLoop vars sizes sel slots a values st start nums).1 k' = st k' := by
  induction nums generalizing st start with
  | nil => rfl
  | cons p rest ih =>
    have hrest : ∀ q ∈ rest, q.1 ∈ sel → ∀ v, findVar vars q.1 = some v → ∀ sl, slots = .ok sl →
        ∀ s' ∈ sl, k' ≠ keyOf v s' := fun q hq => h q (List.mem_cons_of_mem _ hq)
    by_cases hp : p.1 ∈ sel
    · rw [setLoop, if_pos hp]
      cases hv : findVar vars p.1 with
      | none => rfl
      | some v =>
        cases slots with
        | error err => rfl
        | ok sl =>
          simp only
          have hf := writeSlots_frame v a ((values.drop start).take (sizes.getD p.2 0)) sl st k'
            (h p List.mem_cons_self hp v hv sl rfl)
          rcases hws : writeSlots st v a ((values.drop start).take (sizes.getD p.2 0)) sl with ⟨st1, _ | err⟩
          · rw [hws] at hf
            simp only
            rw [ih st1 _ hrest]
            exact hf
          · rw [hws] at hf
            exact hf
    · rw [setLoop_cons_neg _ _ _ _ _ _ _ _ _ _ hp]
      exact ih st start hrest

theorem getLoop_congr (vars : List Var) (sel : List Nat) (slot : Bool × Nat) (st1 st2 : Store)
    (nums : List (Nat × Nat))
    (h : ∀ p ∈ nums, p.1 ∈ sel → ∀ v, findVar vars p.1 = some v → st1 (keyOf v slot) = st2 (keyOf v slot)) :
    getLoop vars st1 sel (.ok slot) nums = getLoop vars st2 sel (.ok slot) nums := by
  induction nums with
  | nil => rfl
  | cons p rest ih =>
    have ihr := ih (fun q hq => h q (List.mem_cons_of_mem _ hq))
    by_cases hp : p.1 ∈ sel
    · rw [getLoop, getLoop, if_pos hp, if_pos hp]
      cases hv : findVar vars p.1 with
      | none => rfl
      | some v =>
        simp only
        rw [h p List.mem_cons_self hp v hv, ihr]
    · rw [getLoop_cons_neg _ _ _ _ _ _ hp, getLoop_cons_neg _ _ _ _ _ _ hp]
      exact ihr

theorem getLoop_sel_congr (vars : List Var) (st : Store) (sel sel' : List Nat)
    (slot : Except Err (Bool × Nat)) (nums : List (Nat × Nat)) (h : ∀ i, i ∈ sel ↔ i ∈ sel') :
    getLoop vars st sel slot nums = getLoop vars st sel' slot nums := by
  induction nums with
  | nil => rfl
  | cons p rest ih =>
    by_cases hp : p.1 ∈ sel
    · have hp' := (h p.1).mp hp
      rw [getLoop, getLoop, if_pos hp, if_pos hp', ih]
    · have hp' : p.1 ∉ sel' := fun x => hp ((h p.1).mpr x)
      rw [getLoop_cons_neg _ _ _ _ _ _ hp, getLoop_cons_neg _ _ _ _ _ _ hp', ih]

theorem setLoop_sel_congr (vars : List Var) (sizes sel sel' : List Nat)
    (slots : Except Err (List (Bool × Nat))) (a : Bool) (values : List Rat) (nums : List (Nat × Nat))
    (st : Store) (start : Nat) (h : ∀ i, i ∈ sel ↔ i ∈ sel') :
    setLoop vars sizes sel slots a values st start nums = setLoop vars sizes sel' slots a values st start nums := by
  induction nums generalizing st start with
  | nil => rfl
  | cons p rest ih =>
    by_cases hp : p.1 ∈ sel
    · have hp' := (h p.1).mp hp
      rw [setLoop, setLoop, if_pos hp, if_pos hp']
      cases findVar vars p.1 with
      | none => rfl
      | some v =>
        cases slots with
        | error err => rfl
        | ok sl =>
          simp only
          rcases writeSlots st v a ((values.drop start).take (sizes.getD p.2 0)) sl with ⟨st1, _ | err⟩
          · exact ih st1 _
          · rfl
    · have hp' : p.1 ∉ sel' := fun x => hp ((h p.1).mpr x)
      rw [setLoop_cons_neg _ _ _ _ _ _ _ _ _ _ hp, setLoop_cons_neg _ _ _ _ _ _ _ _ _ _ hp', ih]

theorem take_drop_glue (values : List Rat) (start n m : Nat) :
    (values.drop start).take n ++ (values.drop (start + n)).take m = (values.drop start).take (n + m) := by
  rw [List.take_add, List.drop_drop]

def okOr (r : Except Err (List Rat)) : List Rat :=
  match r with
  | .ok l => l
  | .error _ => []

/-- set-then-get on the level of the two loops, overwrite (`a = false`) and additive (`a = true`) -/
theorem set_get_loop (vars : List Var) (sizes sel : List Nat) (sl : List (Bool × Nat)) (a : Bool)
    (values : List Rat) (slot : Bool × Nat) (hsl : sl.Nodup) (hslot : slot ∈ sl)
    (nums : List (Nat × Nat)) (hN1 : (nums.map (·.1)).Nodup)
    (hN2 : ∀ p ∈ nums, p.1 ∈ sel → ∃ v, findVar vars p.1 = some v)
    (hN3 : ∀ p ∈ nums, ∀ q ∈ nums, p.1 ≠ q.1 → ∀ v w, findVar vars p.1 = some v →
      findVar vars q.1 = some w → ¬ (v.name = w.name ∧ v.grid = w.grid))
    (st : Store) (start : Nat) (hlen : start + selSize sizes sel nums ≤ values.length) (old : List Rat)
    (hadd : a = true → ∀ p ∈ nums, p.1 ∈ sel → ∀ v, findVar vars p.1 = some v → ∀ s' ∈ sl,
      ∃ o, st (keyOf v s') = some o ∧ o.length = sizes.getD p.2 0)
    (hold : a = true → getLoop vars st sel (.ok slot) nums = .ok old) :
    (setLoop vars sizes sel (.ok sl) a values st start nums).2 = .ok (start + selSize sizes sel nums) ∧
    getLoop vars (setLoop vars sizes sel (.ok sl) a values st start nums).1 sel (.ok slot) nums =
      .ok (if a then List.zipWith (· + ·) old ((values.drop start).take (selSize sizes sel nums))
           else (values.drop start).take (selSize sizes sel nums)) := by
  induction nums generalizing st start old with
  | nil =>
    refine ⟨by simp [setLoop, selSize], ?_⟩
    simp [setLoop, getLoop, selSize]
  | cons p rest ih =>
    have hN1' : (rest.map (·.1)).Nodup := by
      simp only [List.map_cons] at hN1; exact (List.nodup_cons.mp hN1).2
    have hpr : ∀ q ∈ rest, p.1 ≠ q.1 := by
      intro q hq he
      simp only [List.map_cons] at hN1
      exact (List.nodup_cons.mp hN1).1 (he ▸ List.mem_map.mpr ⟨q, hq, rfl⟩)
    have hN2' : ∀ q ∈ rest, q.1 ∈ sel → ∃ v, findVar vars q.1 = some v :=
      fun q hq => hN2 q (List.mem_cons_of_mem _ hq)
    have hN3' : ∀ q ∈ rest, ∀ q' ∈ rest, q.1 ≠ q'.1 → ∀ v w, findVar vars q.1 = some v →
        findVar vars q'.1 = some w → ¬ (v.name = w.name ∧ v.grid = w.grid) :=
      fun q hq q' hq' => hN3 q (List.mem_cons_of_mem _ hq) q' (List.mem_cons_of_mem _ hq')
    by_cases hp : p.1 ∈ sel
    · -- the head block is selected
      obtain ⟨v, hv⟩ := hN2 p List.mem_cons_self hp
      have hss := selSize_cons_pos sizes sel p rest hp
      generalize hn : sizes.getD p.2 0 = n at hss
      have hloclen : ((values.drop start).take n).length = n := by
        rw [List.length_take, List.length_drop]; omega
      -- keys of the later blocks differ from the keys of the head block
      have hkeys : ∀ q ∈ rest, ∀ w, findVar vars q.1 = some w → ∀ s1 s2, keyOf w s1 ≠ keyOf v s2 := by
        intro q hq w hw s1 s2 he
        have := (keyOf_eq_iff w v s1 s2).mp he
        exact hN3 p List.mem_cons_self q (List.mem_cons_of_mem _ hq) (hpr q hq) v w hv hw
          ⟨this.2.1.symm, this.1.symm⟩
      have hW := writeSlots_spec v a ((values.drop start).take n) sl hsl st (by
        intro ha s' hs'
        obtain ⟨o, ho, hol⟩ := hadd ha p List.mem_cons_self hp v hv s' hs'
        exact ⟨o, ho, by rw [hol, hn, hloclen]⟩)
      have hstep := setLoop_cons_pos vars sizes sel sl a values st start p rest hp v hv (by rw [hn]; exact hW.1)
      rw [hn] at hstep
      generalize hst1 : (writeSlots st v a ((values.drop start).take n) sl).1 = st1 at hstep hW
      have hfr1 : ∀ q ∈ rest, ∀ w, findVar vars q.1 = some w → ∀ s', st1 (keyOf w s') = st (keyOf w s') := by
        intro q hq w hw s'
        rw [← hst1]
        exact writeSlots_frame v a _ sl st _ (fun s2 _ => hkeys q hq w hw s' s2)
      -- the tail of the old values
      have holdsplit : a = true → ∃ o, st (keyOf v slot) = some o ∧ o.length = n ∧
          getLoop vars st sel (.ok slot) rest = .ok (okOr (getLoop vars st sel (.ok slot) rest)) ∧
          old = o ++ okOr (getLoop vars st sel (.ok slot) rest) := by
        intro ha
        obtain ⟨o, ho, hol⟩ := hadd ha p List.mem_cons_self hp v hv slot hslot
        have := hold ha
        rw [getLoop_cons_pos vars st sel slot p rest hp v hv o ho] at this
        cases hr : getLoop vars st sel (.ok slot) rest with
        | error err => rw [hr] at this; cases this
        | ok oldr =>
          rw [hr] at this
          simp only [Except.ok.injEq] at this
          exact ⟨o, ho, by rw [hol, hn], rfl, this.symm⟩
      -- induction hypothesis on the tail, from the store after the head was written
      have IH := ih hN1' hN2' hN3' st1 (start + n) (by omega)
        (okOr (getLoop vars st sel (.ok slot) rest))
        (by
          intro ha q hq hqs w hw s' hs'
          rw [hfr1 q hq w hw s']
          exact hadd ha q (List.mem_cons_of_mem _ hq) hqs w hw s' hs')
        (by
          intro ha
          rw [getLoop_congr vars sel slot st1 st rest (fun q hq _ w hw => hfr1 q hq w hw slot)]
          obtain ⟨o, _, _, h3, _⟩ := holdsplit ha
          exact h3)
      rw [hstep]
      generalize hst' : setLoop vars sizes sel (.ok sl) a values st1 (start + n) rest = R at IH
      obtain ⟨IH1, IH2⟩ := IH
      refine ⟨by rw [IH1, hss]; congr 1; omega, ?_⟩
      -- the head's slot survives the writes of the tail
      have hhead : R.1 (keyOf v slot) = st1 (keyOf v slot) := by
        rw [← hst']
        apply setLoop_frame
        intro q hq _ w hw sl' hsl' s' _
        exact (hkeys q hq w hw s' slot).symm
      have hval := hW.2 slot hslot
      rw [getLoop_cons_pos vars R.1 sel slot p rest hp v hv _ (hhead.trans hval), IH2]
      simp only [Except.ok.injEq]
      rw [hss]
      rcases Bool.eq_false_or_eq_true a with ha | ha
      · obtain ⟨o, hc1, hc2, hc3, hc4⟩ := holdsplit ha
        subst ha
        simp only [if_true]
        rw [hc1, Option.getD_some]
        conv => rhs; rw [hc4, ← take_drop_glue values start n _]
        rw [List.zipWith_append (by rw [hc2, hloclen])]
      · subst ha
        simp only [Bool.false_eq_true, if_false]
        exact take_drop_glue values start n _
    · -- the head block is not selected
      have hss := selSize_cons_neg sizes sel p rest hp
      rw [setLoop_cons_neg _ _ _ _ _ _ _ _ _ _ hp, hss]
      have IH := ih hN1' hN2' hN3' st start (by omega) old
        (fun ha q hq => hadd ha q (List.mem_cons_of_mem _ hq))
        (fun ha => by rw [← getLoop_cons_neg vars st sel (.ok slot) p rest hp]; exact hold ha)
      refine ⟨IH.1, ?_⟩
      rw [getLoop_cons_neg _ _ _ _ _ _ hp]
      exact IH.2

/-! ### from the invariant to the hypotheses of the loop lemmas -/

theorem pairwise_symm_forall {α : Type} {R : α → α → Prop} (hs : ∀ a b, R a b → R b a) {l : List α}
    (hp : l.Pairwise R) : ∀ a ∈ l, ∀ b ∈ l, a ≠ b → R a b := by
  induction l with
  | nil => intro a ha; cases ha
  | cons x l ih =>
    obtain ⟨h1, h2⟩ := List.pairwise_cons.mp hp
    intro a ha b hb hab
    rcases List.mem_cons.mp ha with ha' | ha' <;> rcases List.mem_cons.mp hb with hb' | hb'
    · exact absurd (ha'.trans hb'.symm) hab
    · rw [ha']; exact h1 b hb'
    · rw [hb']; exact hs _ _ (h1 a ha')
    · exact ih h2 a ha' b hb' hab

theorem numberOf_of_mem (nums : List (Nat × Nat)) (hn : (nums.map (·.1)).Nodup) (p : Nat × Nat)
    (hp : p ∈ nums) : numberOf nums p.1 = some p.2 := by
  induction nums with
  | nil => cases hp
  | cons q r ih =>
    simp only [List.map_cons] at hn
    rcases List.mem_cons.mp hp with rfl | hp'
    · simp [numberOf]
    · have hne : ¬ q.1 = p.1 := by
        intro e
        exact (List.nodup_cons.mp hn).1 (e ▸ List.mem_map.mpr ⟨p, hp', rfl⟩)
      simp only [numberOf, hne, if_false]
      exact ih (List.nodup_cons.mp hn).2 hp'

theorem inv_N2 {e : Env} {s : State} (h : Inv e s) :
    ∀ p ∈ s.numbers, ∃ v, findVar s.vars p.1 = some v := by
  intro p hp
  exact findVar_of_mem_ids _ _ (h.perm.mem_iff.mp (List.mem_map.mpr ⟨p, hp, rfl⟩))

theorem inv_N3 {e : Env} {s : State} (_h : Inv e s) (hK : KeysUnique s) (i j : Nat) (hij : i ≠ j)
    (v w : Var) (hv : findVar s.vars i = some v) (hw : findVar s.vars j = some w) :
    ¬ (v.name = w.name ∧ v.grid = w.grid) := by
  obtain ⟨hv1, hv2⟩ := findVar_some _ _ _ hv
  obtain ⟨hw1, hw2⟩ := findVar_some _ _ _ hw
  have hne : v ≠ w := by
    intro e; subst e; exact hij (hv2.symm.trans hw2)
  have hK' : s.vars.Pairwise (fun v w => ¬ (v.name = w.name ∧ v.grid = w.grid)) := hK
  exact pairwise_symm_forall (fun a b hab hba => hab ⟨hba.1.symm, hba.2.symm⟩) hK' v hv1 w hw1 hne

theorem inv_size_of_block {e : Env} {s : State} (h : Inv e s) (p : Nat × Nat) (hp : p ∈ s.numbers)
    (v : Var) (hv : findVar s.vars p.1 = some v) : s.sizes.getD p.2 0 = varSize e v := by
  obtain ⟨hv1, hv2⟩ := findVar_some _ _ _ hv
  have := h.sizeOk v hv1
  unfold sizeOf at this
  rw [hv2, numberOf_of_mem _ (inv_nodup_ids h) p hp] at this
  simpa using this

theorem map_snd_numberFrom (a : Nat) (l : List Nat) : (numberFrom a l).map (·.2) = List.range' a l.length := by
  induction l generalizing a with
  | nil => rfl
  | cons i r ih => simp [numberFrom, ih, List.range'_succ]

/-! ### values of a subset come in global order: `get(sel) = projection(sel) · get(all)` -/

/-- the selected global indices, block by block in block order -/
def selIdx (sizes sel : List Nat) (nums : List (Nat × Nat)) : List Nat :=
  (nums.filter (fun p => p.1 ∈ sel)).flatMap (fun p => blockRange sizes p.2)

theorem selIdx_cons_pos (sizes sel : List Nat) (p : Nat × Nat) (r : List (Nat × Nat)) (h : p.1 ∈ sel) :
    selIdx sizes sel (p :: r) = blockRange sizes p.2 ++ selIdx sizes sel r := by
  simp [selIdx, h]

theorem selIdx_cons_neg (sizes sel : List Nat) (p : Nat × Nat) (r : List (Nat × Nat)) (h : p.1 ∉ sel) :
    selIdx sizes sel (p :: r) = selIdx sizes sel r := by
  simp [selIdx, h]

theorem applyProj_append (a b : List Nat) (x : List Rat) :
    applyProj (a ++ b) x = applyProj a x ++ applyProj b x := by
  simp [applyProj]

theorem applyProj_range'_mid (pre o tail : List Rat) :
    applyProj (List.range' pre.length o.length) (pre ++ (o ++ tail)) = o := by
  apply List.ext_getElem
  · simp [applyProj]
  · intro j h1 h2
    simp only [applyProj, List.getElem_map, List.getElem_range', Nat.one_mul, List.getD_eq_getElem?_getD]
    rw [List.getElem?_append_right (by omega)]
    have : pre.length + j - pre.length = j := by omega
    rw [this, List.getElem?_append_left h2, List.getElem?_eq_getElem h2]
    rfl

theorem getLoop_ok_cons (vars : List Var) (st : Store) (sel : List Nat) (slot : Bool × Nat)
    (p : Nat × Nat) (rest : List (Nat × Nat)) (hp : p.1 ∈ sel) (v : Var) (hv : findVar vars p.1 = some v)
    (o : List Rat) (ho : st (keyOf v slot) = some o) (xs : List Rat)
    (h : getLoop vars st sel (.ok slot) (p :: rest) = .ok xs) :
    ∃ xs', getLoop vars st sel (.ok slot) rest = .ok xs' ∧ xs = o ++ xs' := by
  rw [getLoop_cons_pos vars st sel slot p rest hp v hv o ho] at h
  cases hr : getLoop vars st sel (.ok slot) rest with
  | error err => rw [hr] at h; cases h
  | ok l =>
    rw [hr] at h
    simp only [Except.ok.injEq] at h
    exact ⟨l, rfl, h.symm⟩

/-- loop level: with `pre` the values of the blocks before block `k`, the values read for `sel` are
    the global vector `pre ++ gs` at the selected indices -/
theorem get_sel_eq_applyProj (vars : List Var) (sizes sel selAll : List Nat) (slot : Bool × Nat) (st : Store)
    (ids : List Nat) (k : Nat) (hk : k + ids.length ≤ sizes.length) (hall : ∀ i ∈ ids, i ∈ selAll)
    (hst : ∀ j (hj : j < ids.length), ∃ v o, findVar vars ids[j] = some v ∧
      st (keyOf v slot) = some o ∧ o.length = sizes.getD (k + j) 0)
    (pre gs xs : List Rat) (hpre : pre.length = cum sizes k)
    (hg : getLoop vars st selAll (.ok slot) (numberFrom k ids) = .ok gs)
    (hx : getLoop vars st sel (.ok slot) (numberFrom k ids) = .ok xs) :
    pre.length + gs.length = cum sizes (k + ids.length) ∧
    xs = applyProj (selIdx sizes sel (numberFrom k ids)) (pre ++ gs) := by
  induction ids generalizing k pre gs xs with
  | nil =>
    simp only [numberFrom, getLoop, Except.ok.injEq] at hg hx
    subst hg hx
    simp [hpre, selIdx, applyProj, numberFrom]
  | cons i r ih =>
    obtain ⟨v, o, hv, ho, hol⟩ := hst 0 (by simp)
    simp only [List.getElem_cons_zero, Nat.add_zero] at hv hol
    have hklt : k < sizes.length := by simp at hk; omega
    have hsz : sizes.getD k 0 = sizes[k] := by
      simp [List.getD_eq_getElem?_getD, List.getElem?_eq_getElem hklt]
    simp only [numberFrom] at hg hx ⊢
    obtain ⟨gs', hg', rfl⟩ := getLoop_ok_cons vars st selAll slot (i, k) _ (hall i List.mem_cons_self) v hv o ho gs hg
    have hpre' : (pre ++ o).length = cum sizes (k + 1) := by
      rw [List.length_append, hpre, hol, cum_succ sizes k hklt, hsz]
    have hst' : ∀ j (hj : j < r.length), ∃ v o, findVar vars r[j] = some v ∧
        st (keyOf v slot) = some o ∧ o.length = sizes.getD (k + 1 + j) 0 := by
      intro j hj
      obtain ⟨w, o', h1, h2, h3⟩ := hst (j + 1) (by simpa using hj)
      refine ⟨w, o', by simpa using h1, h2, ?_⟩
      rw [h3]; congr 1; omega
    have hk' : k + 1 + r.length ≤ sizes.length := by simp at hk; omega
    have hall' : ∀ i ∈ r, i ∈ selAll := fun j hj => hall j (List.mem_cons_of_mem _ hj)
    have e1 : k + (i :: r).length = k + 1 + r.length := by simp; omega
    by_cases hp : i ∈ sel
    · obtain ⟨xs', hx', rfl⟩ := getLoop_ok_cons vars st sel slot (i, k) _ hp v hv o ho xs hx
      obtain ⟨l1, l2⟩ := ih (k + 1) hk' hall' hst' (pre ++ o) gs' xs' hpre' hg' hx'
      refine ⟨?_, ?_⟩
      · rw [e1, ← l1]; simp; omega
      · rw [selIdx_cons_pos _ _ _ _ hp, applyProj_append, l2, List.append_assoc]
        congr 1
        show o = applyProj (blockRange sizes k) (pre ++ (o ++ gs'))
        rw [blockRange_eq sizes k hklt, ← hpre, ← hol, applyProj_range'_mid]
    · rw [getLoop_cons_neg _ _ _ _ _ _ hp] at hx
      obtain ⟨l1, l2⟩ := ih (k + 1) hk' hall' hst' (pre ++ o) gs' xs hpre' hg' hx
      refine ⟨?_, ?_⟩
      · rw [e1, ← l1]; simp; omega
      · rw [selIdx_cons_neg _ _ _ _ hp, l2, List.append_assoc]

/-- the selected indices in block order are increasing -/
theorem selIdx_sorted (sizes sel : List Nat) (ids : List Nat) (k : Nat) :
    (selIdx sizes sel (numberFrom k ids)).Pairwise (· ≤ ·) ∧
    ∀ d ∈ selIdx sizes sel (numberFrom k ids), cum sizes k ≤ d := by
  induction ids generalizing k with
  | nil => simp [selIdx, numberFrom]
  | cons i r ih =>
    obtain ⟨i1, i2⟩ := ih (k + 1)
    have hge : ∀ d ∈ selIdx sizes sel (numberFrom (k + 1) r), cum sizes k ≤ d :=
      fun d hd => Nat.le_trans (cum_le_succ sizes k) (i2 d hd)
    simp only [numberFrom]
    by_cases hp : i ∈ sel
    · rw [selIdx_cons_pos _ _ _ _ hp]
      refine ⟨?_, ?_⟩
      · rw [List.pairwise_append]
        refine ⟨?_, i1, ?_⟩
        · exact (List.pairwise_lt_range' (s := cum sizes k) (n := cum sizes (k + 1) - cum sizes k)).imp
            (fun h => Nat.le_of_lt h)
        · intro a ha b hb
          have := (mem_blockRange sizes k a).mp ha
          have := i2 b hb
          omega
      · intro d hd
        rcases List.mem_append.mp hd with hd | hd
        · exact ((mem_blockRange sizes k d).mp hd).1
        · exact hge d hd
    · rw [selIdx_cons_neg _ _ _ _ hp]
      exact ⟨i1, hge⟩

theorem dofsOfIds_eq_flatMap (s : State) (sel l : List Nat) (h : dofsOfIds s sel = .ok l) :
    l = sel.flatMap (fun i => blockRange s.sizes ((numberOf s.numbers i).getD 0)) := by
  induction sel generalizing l with
  | nil => simp only [dofsOfIds, Except.ok.injEq] at h; subst h; rfl
  | cons i r ih =>
    unfold dofsOfIds at h
    cases hb : numberOf s.numbers i with
    | none => simp [hb] at h
    | some b =>
      cases hr : dofsOfIds s r with
      | error err => simp [hb, hr] at h
      | ok l' =>
        simp only [hb, hr, Except.ok.injEq] at h
        subst h
        simp [hb, ih l' hr]

theorem flatMap_congr' {α β : Type} (l : List α) (f g : α → List β) (h : ∀ x ∈ l, f x = g x) :
    l.flatMap f = l.flatMap g := by
  induction l with
  | nil => rfl
  | cons a r ih =>
    simp only [List.flatMap_cons]
    rw [h a List.mem_cons_self, ih (fun x hx => h x (List.mem_cons_of_mem _ hx))]

theorem selIdx_eq_flatMap (sizes sel : List Nat) (nums : List (Nat × Nat)) (hn : (nums.map (·.1)).Nodup) :
    selIdx sizes sel nums =
      ((nums.map (·.1)).filter (fun i => i ∈ sel)).flatMap
        (fun i => blockRange sizes ((numberOf nums i).getD 0)) := by
  unfold selIdx
  rw [show (nums.map (·.1)).filter (fun i => decide (i ∈ sel))
      = (nums.filter (fun p => decide (p.1 ∈ sel))).map (·.1) from by rw [List.filter_map]; rfl]
  rw [List.flatMap_map]
  apply flatMap_congr'
  intro p hp
  rw [numberOf_of_mem nums hn p (List.mem_filter.mp hp).1]
  rfl

/-- `np.sort(dofs_of(sel))` is the list of selected indices in block order -/
theorem isort_dofs_eq_selIdx {e : Env} {s : State} (hI : Inv e s) (sel l : List Nat) (hsel : sel.Nodup)
    (hreg : ∀ i ∈ sel, i ∈ s.numbers.map (·.1)) (hl : dofsOfIds s sel = .ok l) :
    isort l = selIdx s.sizes sel s.numbers := by
  have hn := inv_nodup_ids hI
  apply List.Perm.eq_of_pairwise (le := (· ≤ ·))
  · intro a b _ _ h1 h2; exact Nat.le_antisymm h1 h2
  · exact sorted_isort l
  · have := (selIdx_sorted s.sizes sel (s.numbers.map (·.1)) 0).1
    rw [← hI.numbered] at this
    exact this
  · refine (perm_isort l).trans ?_
    rw [dofsOfIds_eq_flatMap s sel l hl, selIdx_eq_flatMap s.sizes sel s.numbers hn]
    apply List.Perm.flatMap_right
    rw [List.perm_ext_iff_of_nodup hsel (hn.filter _)]
    intro i
    simp only [List.mem_filter, decide_eq_true_eq]
    exact ⟨fun h => ⟨hreg i h, h⟩, fun h => h.2⟩

/-! ### removal of several variables: canonical result -/

theorem cluster_canonical (e : Env) (s : State) (h : PreInv e s) : Canonical e (cluster e s) := by
  refine ⟨rfl, ?_⟩
  show (clusterOrder e s.vars).map (fun v => sizeOf s v.id) = (clusterOrder e s.vars).map (varSize e)
  apply List.map_congr_left
  intro v hv
  exact h.sizeOk v ((mem_clusterOrder e s.vars v).mp hv).1

theorem state_ext (a b : State) (h1 : a.vars = b.vars) (h2 : a.numbers = b.numbers) (h3 : a.sizes = b.sizes)
    (h4 : a.store = b.store) (h5 : a.next = b.next) : a = b := by
  cases a; cases b; simp_all

/-- `del self._variables[id]`, `self._variable_numbers.pop(id)` -/
def popVar (s : State) (i : Nat) : State :=
  { s with vars := s.vars.filter (fun v => v.id != i), numbers := s.numbers.filter (fun p => p.1 != i) }

theorem removeLoop_cons_pos (e : Env) (s : State) (i : Nat) (r : List Nat)
    (h : s.vars.any (fun v => v.id == i) = true) :
    removeLoop e s (i :: r) = removeLoop e (cluster e (popVar s i)) r := by
  rw [removeLoop, if_pos h]; rfl

theorem any_of_registered (s : State) (i : Nat) (h : i ∈ s.vars.map (·.id)) :
    s.vars.any (fun v => v.id == i) = true := by
  obtain ⟨v, hv, hvi⟩ := List.mem_map.mp h
  rw [List.any_eq_true]
  exact ⟨v, hv, by simp [hvi]⟩

theorem registered_after_pop (e : Env) (s : State) (i j : Nat) (hji : j ≠ i) (h : j ∈ s.vars.map (·.id)) :
    j ∈ (cluster e (popVar s i)).vars.map (·.id) := by
  obtain ⟨v, hv, hvj⟩ := List.mem_map.mp h
  exact List.mem_map.mpr ⟨v, List.mem_filter.mpr ⟨hv, by simp [hvj, hji]⟩, hvj⟩

theorem removeLoop_spec (e : Env) (hn : e.order.Nodup) (ids : List Nat) (s : State) (hI : Inv e s)
    (hnd : ids.Nodup) (hreg : ∀ i ∈ ids, i ∈ s.vars.map (·.id)) (hc : Canonical e s ∨ ids ≠ []) :
    (removeLoop e s ids).2 = .ok () ∧
    (removeLoop e s ids).1.vars = s.vars.filter (fun v => !(ids.contains v.id)) ∧
    Canonical e (removeLoop e s ids).1 ∧ Inv e (removeLoop e s ids).1 ∧
    (removeLoop e s ids).1.store = s.store ∧ (removeLoop e s ids).1.next = s.next := by
  induction ids generalizing s with
  | nil =>
    refine ⟨rfl, ?_, ?_, hI, rfl, rfl⟩
    · show s.vars = s.vars.filter (fun v => !(([] : List Nat).contains v.id))
      exact (List.filter_eq_self.mpr (fun _ _ => rfl)).symm
    · rcases hc with hc | hc
      · exact hc
      · exact absurd rfl hc
  | cons i r ih =>
    rw [removeLoop_cons_pos e s i r (any_of_registered s i (hreg i List.mem_cons_self))]
    have hpre : PreInv e (popVar s i) := pop_preinv e s i hI.pre
    have hI1 := cluster_inv e hn _ hpre
    have hc1 := cluster_canonical e _ hpre
    obtain ⟨r1, r2, r3, r4, r5, r6⟩ := ih _ hI1 (List.nodup_cons.mp hnd).2
      (fun j hj => registered_after_pop e s i j (fun e => (List.nodup_cons.mp hnd).1 (e ▸ hj))
        (hreg j (List.mem_cons_of_mem _ hj))) (Or.inl hc1)
    refine ⟨r1, ?_, r3, r4, r5, r6⟩
    rw [r2]
    show (s.vars.filter (fun v => v.id != i)).filter _ = _
    rw [List.filter_filter]
    apply List.filter_congr
    intro v _
    by_cases h : v.id = i
    · simp [h]
    · have h' : ¬ i = v.id := fun e => h e.symm
      simp [h, h']

theorem seqRemove_eq (e : Env) (hn : e.order.Nodup) (ids : List Nat) (s : State) (hI : Inv e s)
    (hnd : ids.Nodup) (hreg : ∀ i ∈ ids, i ∈ s.vars.map (·.id)) :
    seqRemove e s ids = (removeLoop e s ids).1 := by
  induction ids generalizing s with
  | nil => rfl
  | cons i r ih =>
    have hany := any_of_registered s i (hreg i List.mem_cons_self)
    have h1 : (removeLoop e s [i]).1 = cluster e (popVar s i) := by
      rw [removeLoop_cons_pos e s i [] hany]; rfl
    have hI1 := cluster_inv e hn _ (pop_preinv e s i hI.pre)
    show seqRemove e (removeLoop e s [i]).1 r = _
    rw [h1, removeLoop_cons_pos e s i r hany]
    exact ih _ hI1 (List.nodup_cons.mp hnd).2
      (fun j hj => registered_after_pop e s i j (fun e => (List.nodup_cons.mp hnd).1 (e ▸ hj))
        (hreg j (List.mem_cons_of_mem _ hj)))

theorem removeLoop_perm (e : Env) (hn : e.order.Nodup) (s : State) (hI : Inv e s) (ids ids' : List Nat)
    (hp : ids.Perm ids') (hnd : ids.Nodup) (hreg : ∀ i ∈ ids, i ∈ s.vars.map (·.id)) :
    (removeLoop e s ids).1 = (removeLoop e s ids').1 := by
  by_cases hnil : ids = []
  · subst hnil
    have : ids' = [] := List.Perm.eq_nil (hp.symm)
    subst this; rfl
  · have hnil' : ids' ≠ [] := fun e => hnil (List.Perm.eq_nil (e ▸ hp))
    obtain ⟨_, a2, a3, _, a5, a6⟩ := removeLoop_spec e hn ids s hI hnd hreg (Or.inr hnil)
    obtain ⟨_, b2, b3, _, b5, b6⟩ := removeLoop_spec e hn ids' s hI (hp.nodup_iff.mp hnd)
      (fun i hi => hreg i (hp.mem_iff.mpr hi)) (Or.inr hnil')
    have hv : (removeLoop e s ids).1.vars = (removeLoop e s ids').1.vars := by
      rw [a2, b2]
      apply List.filter_congr
      intro v _
      have : ids.contains v.id = ids'.contains v.id := by
        rw [Bool.eq_iff_iff]; simp [hp.mem_iff]
      rw [this]
    apply state_ext _ _ hv
    · rw [a3.1, b3.1, hv]
    · rw [a3.2, b3.2, hv]
    · rw [a5, b5]
    · rw [a6, b6]

/-! ### index validation -/

theorem getLoop_error_slot (vars : List Var) (st : Store) (sel : List Nat) (err : Err)
    (nums : List (Nat × Nat)) (hf : ∀ p ∈ nums, ∃ v, findVar vars p.1 = some v) :
    getLoop vars st sel (.error err) nums =
      if nums.filter (fun p => p.1 ∈ sel) = [] then .ok [] else .error err := by
  induction nums with
  | nil => rfl
  | cons p rest ih =>
    by_cases hp : p.1 ∈ sel
    · obtain ⟨v, hv⟩ := hf p List.mem_cons_self
      rw [getLoop, if_pos hp, List.filter_cons_of_pos (by simpa using hp)]
      simp [hv]
    · rw [getLoop_cons_neg _ _ _ _ _ _ hp, ih (fun q hq => hf q (List.mem_cons_of_mem _ hq)),
        List.filter_cons_of_neg (by simpa using hp)]

theorem setLoop_error_slot (vars : List Var) (sizes sel : List Nat) (err : Err) (a : Bool)
    (values : List Rat) (st : Store) (start : Nat) (nums : List (Nat × Nat))
    (hf : ∀ p ∈ nums, ∃ v, findVar vars p.1 = some v) :
    setLoop vars sizes sel (.error err) a values st start nums =
      (st, if nums.filter (fun p => p.1 ∈ sel) = [] then .ok start else .error err) := by
  induction nums with
  | nil => rfl
  | cons p rest ih =>
    by_cases hp : p.1 ∈ sel
    · obtain ⟨v, hv⟩ := hf p List.mem_cons_self
      rw [setLoop, if_pos hp, List.filter_cons_of_pos (by simpa using hp)]
      simp [hv]
    · rw [setLoop_cons_neg _ _ _ _ _ _ _ _ _ _ hp, ih (fun q hq => hf q (List.mem_cons_of_mem _ hq)),
        List.filter_cons_of_neg (by simpa using hp)]

/-! ### `update_variable_num_dofs` -/

theorem updateLoop_spec (e : Env) (numbers : List (Nat × Nat)) (l : List Var) (sizes : List Nat)
    (hd : l.Pairwise (fun v w => (numberOf numbers v.id).getD 0 ≠ (numberOf numbers w.id).getD 0))
    (hlt : ∀ v ∈ l, (numberOf numbers v.id).getD 0 < sizes.length) :
    (updateLoop e numbers sizes l).length = sizes.length ∧
    (∀ v ∈ l, (updateLoop e numbers sizes l).getD ((numberOf numbers v.id).getD 0) 0 = varSize e v) ∧
    (∀ k, (∀ v ∈ l, (numberOf numbers v.id).getD 0 ≠ k) →
      (updateLoop e numbers sizes l).getD k 0 = sizes.getD k 0) := by
  induction l generalizing sizes with
  | nil => exact ⟨rfl, by simp, fun _ _ => rfl⟩
  | cons v r ih =>
    obtain ⟨hv, hr⟩ := List.pairwise_cons.mp hd
    have hlen : (sizes.set ((numberOf numbers v.id).getD 0) (varSize e v)).length = sizes.length := by simp
    obtain ⟨i1, i2, i3⟩ := ih (sizes.set ((numberOf numbers v.id).getD 0) (varSize e v)) hr
      (fun w hw => by rw [hlen]; exact hlt w (List.mem_cons_of_mem _ hw))
    refine ⟨by rw [updateLoop, i1, hlen], ?_, ?_⟩
    · intro w hw
      rw [updateLoop]
      rcases List.mem_cons.mp hw with rfl | hw
      · rw [i3 _ (fun u hu => (hv u hu).symm)]
        simp [List.getD_eq_getElem?_getD, List.getElem?_set_self (hlt w List.mem_cons_self)]
      · exact i2 w hw
    · intro k hk
      rw [updateLoop, i3 k (fun u hu => hk u (List.mem_cons_of_mem _ hu))]
      have : (numberOf numbers v.id).getD 0 ≠ k := hk v List.mem_cons_self
      simp [List.getD_eq_getElem?_getD, List.getElem?_set_ne this]

theorem inv_numbers_distinct {e : Env} {s : State} (h : Inv e s) :
    s.vars.Pairwise (fun v w => (numberOf s.numbers v.id).getD 0 ≠ (numberOf s.numbers w.id).getD 0) := by
  have hp : s.vars.Pairwise (fun a b => a.id < b.id) := List.pairwise_map.mp h.idsLt
  refine List.Pairwise.imp_of_mem ?_ hp
  intro v w hv hw hlt heq
  obtain ⟨b, hb, _, hb3⟩ := inv_numberOf_of_mem h v hv
  obtain ⟨b', hb', _, hb3'⟩ := inv_numberOf_of_mem h w hw
  rw [hb, hb'] at heq
  simp only [Option.getD_some] at heq
  subst heq
  rw [hb3] at hb3'
  have := Option.some.inj hb3'
  omega

/-- After the grids were refined / coarsened (same md-grid listing, other entity counts),
    `update_variable_num_dofs` re-establishes the layout invariant for the new grid. -/
theorem updateNumDofs_inv (e e' : Env) (hs : e'.subs = e.subs) (hi : e'.intfs = e.intfs) (s : State)
    (h : Inv e s) : Inv e' (updateNumDofs e' s) := by
  have hlt : ∀ v ∈ s.vars, (numberOf s.numbers v.id).getD 0 < s.sizes.length := by
    intro v hv
    obtain ⟨b, hb, hblt, _⟩ := inv_numberOf_of_mem h v hv
    rw [hb]; exact hblt
  obtain ⟨u1, u2, _⟩ := updateLoop_spec e' s.numbers s.vars s.sizes (inv_numbers_distinct h) hlt
  refine ⟨h.numbered, h.perm, h.idsLt, h.fresh, ?_, ?_, ?_⟩
  · show (updateLoop e' s.numbers s.sizes s.vars).length = s.numbers.length
    rw [u1, h.sizesLen]
  · intro v hv
    rw [hs, hi]; exact h.kindOk v hv
  · intro v hv
    exact u2 v hv

/-! ### a call that succeeds leaves a clustered layout, whatever happened before -/

theorem create_ok_clustered (e : Env) (s : State) (name : Nat) (dof : List (Nat × Nat))
    (subs intfs : Option (List Nat)) (ids : List Nat)
    (h : (create e s name dof subs intfs).2 = .ok ids) : Clustered e (create e s name dof subs intfs).1 := by
  have key : ∀ isSub gs, (createOn e s name dof isSub gs).2 = .ok ids →
      Clustered e (createOn e s name dof isSub gs).1 := by
    intro isSub gs hk
    unfold createOn at hk ⊢
    split
    · rename_i hany; rw [if_pos hany] at hk; cases hk
    · rename_i hany
      rw [if_neg hany] at hk
      rcases hA : addLoop e name dof isSub s gs with ⟨s', _ | err⟩
      · rw [hA] at hk
        simp only at hk ⊢
        split
        · exact clustered_cluster e s'
        · rename_i hnd; rw [if_neg hnd] at hk; cases hk
      · rw [hA] at hk; cases hk
  unfold create at h ⊢
  split
  · rename_i hb; rw [if_pos hb] at h; cases h
  · rename_i hb
    rw [if_neg hb] at h
    split
    · exact key true _ h
    · exact key false _ h
    · rename_i h1 h2
      cases subs <;> cases intfs <;> simp_all

theorem removeLoop_ok_clustered (e : Env) (s : State) (i : Nat) (r : List Nat)
    (h : (removeLoop e s (i :: r)).2 = .ok ()) : Clustered e (removeLoop e s (i :: r)).1 := by
  by_cases hany : s.vars.any (fun v => v.id == i) = true
  · rw [removeLoop_cons_pos e s i r hany]
    exact removeLoop_clustered e r _ (clustered_cluster e _)
  · rw [removeLoop, if_neg hany] at h
    cases h

/-! ### `md_variable` -/

theorem mdVariable_none_ok (s : State) (name : Nat) (ids : List Nat)
    (h : mdVariable s name none = .ok ids) : ids = parse s (some [.name name]) ∧ ids ≠ [] := by
  unfold mdVariable at h
  simp only at h
  cases hf : s.vars.filter (fun v => v.name == name) with
  | nil => rw [hf] at h; cases h
  | cons v r =>
    rw [hf] at h
    simp only at h
    split at h
    · cases h
    · cases h
      refine ⟨?_, by simp⟩
      simp [parse, parseRef, hf]

theorem mdVariable_some (s : State) (name : Nat) (ds : List Nat) :
    mdVariable s name (some ds) =
      .ok ((s.vars.filter (fun v => v.name == name && ds.contains v.grid)).map (·.id)) := rfl

end PorepyVerif.C05
