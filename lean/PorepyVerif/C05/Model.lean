/-
C05 — executable model of the degree-of-freedom bookkeeping of
`porepy.numerics.ad.equation_system.EquationSystem` (core Lean only).

The state mirrors the attributes of the class:
  `vars`     `_variables` (+ `_variable_dof_type`), a dict in insertion (= creation) order
  `numbers`  `_variable_numbers`, a dict id → block number, kept in *dict order* because
             `set_variable_values` / `get_variable_values` iterate over it
  `sizes`    `_variable_num_dofs`, block number → number of dofs
  `store`    the solution arrays `data[loc][name][index]` of every grid's data dictionary
             (they survive `remove_variables`, exactly as in the code)
  `next`     the creation counter (the harness numbers Variable objects by creation)
Grids are natural-number keys; the md-grid listing order (`mdg.subdomains()` followed by
`mdg.interfaces()`) and the entity counts are the parameter `Env`.
Every method is transcribed branch for branch, including what happens on malformed calls
(partial effects before an exception is raised).
-/
namespace PorepyVerif.C05

inductive Err where
  | value      -- ValueError
  | key        -- KeyError
  | assertion  -- AssertionError
  | index      -- IndexError
deriving DecidableEq, Repr

/-- The mixed-dimensional grid as seen by the equation system. -/
structure Env where
  subs : List Nat          -- `mdg.subdomains()` (sorted: dimension descending, then id)
  intfs : List Nat         -- `mdg.interfaces()`
  cells : Nat → Nat
  faces : Nat → Nat
  nodes : Nat → Nat

/-- grid order used by `_cluster_dofs_gridwise` -/
def Env.order (e : Env) : List Nat := e.subs ++ e.intfs

/-- An atomic variable: id, name, domain, `isinstance(domain, pp.Grid)`, and its entry of
    `_variable_dof_type` (`.get(kind, 0)` for cells / faces / nodes). -/
structure Var where
  id : Nat
  name : Nat
  grid : Nat
  sub : Bool
  c : Nat
  f : Nat
  n : Nat
deriving DecidableEq, Repr

/-- number of dofs computed by `_append_dofs` -/
def varSize (e : Env) (v : Var) : Nat :=
  e.cells v.grid * v.c + (if v.sub then e.faces v.grid * v.f + e.nodes v.grid * v.n else 0)

/-- `data[ITERATE_SOLUTIONS | TIME_STEP_SOLUTIONS][name][idx]` of grid `grid` -/
structure Key where
  grid : Nat
  iter : Bool
  name : Nat
  idx : Nat
deriving DecidableEq, Repr

abbrev Store := Key → Option (List Rat)

def Store.put (st : Store) (k : Key) (v : List Rat) : Store :=
  fun k' => if k' = k then some v else st k'

structure State where
  vars : List Var
  numbers : List (Nat × Nat)
  sizes : List Nat
  store : Store
  next : Nat

def init : State := ⟨[], [], [], fun _ => none, 0⟩

/-! ### dictionary look-ups -/

/-- `_variable_numbers[id]` -/
def numberOf : List (Nat × Nat) → Nat → Option Nat
  | [], _ => none
  | p :: r, i => if p.1 = i then some p.2 else numberOf r i

/-- `_variables[id]` -/
def findVar : List Var → Nat → Option Var
  | [], _ => none
  | v :: r, i => if v.id = i then some v else findVar r i

/-- `_variable_num_dofs[_variable_numbers[id]]` (the defaults are never used in a reachable
    state, see `Inv`) -/
def sizeOf (s : State) (i : Nat) : Nat := s.sizes.getD ((numberOf s.numbers i).getD 0) 0

/-- `[(i₀, a), (i₁, a+1), …]` -/
def numberFrom : Nat → List Nat → List (Nat × Nat)
  | _, [] => []
  | a, i :: r => (i, a) :: numberFrom (a + 1) r

/-! ### `_append_dofs`, `_cluster_dofs_gridwise` -/

/-- registration of a new variable in `create_variables` + `_append_dofs` -/
def appendVar (e : Env) (s : State) (v : Var) : State :=
  { s with vars := s.vars ++ [v],
           numbers := s.numbers ++ [(v.id, s.numbers.length)],
           sizes := s.sizes ++ [varSize e v],
           next := s.next + 1 }

/-- the variables in the order in which `_cluster_dofs_gridwise` visits them -/
def clusterOrder (e : Env) (vars : List Var) : List Var :=
  e.subs.flatMap (fun g => vars.filter (fun v => v.grid == g))
    ++ e.intfs.flatMap (fun g => vars.filter (fun v => v.grid == g))

def cluster (e : Env) (s : State) : State :=
  let ord := clusterOrder e s.vars
  { s with sizes := ord.map (fun v => sizeOf s v.id),
           numbers := numberFrom 0 (ord.map (·.id)) }

/-! ### argument parsing (`_parse_variable_type`) -/

inductive Ref where
  | name (n : Nat)   -- a string
  | var (id : Nat)   -- a Variable object (possibly one that was removed, or a foreign one)
deriving DecidableEq, Repr

def parseRef (s : State) : Ref → List Nat
  | .name n => (s.vars.filter (fun v => v.name == n)).map (·.id)
  | .var i => [i]

def parse (s : State) : Option (List Ref) → List Nat
  | none => s.vars.map (·.id)
  | some rs => rs.flatMap (parseRef s)

/-! ### `create_variables` -/

/-- `dof_info.get(kind, 0)` with kinds 0 = cells, 1 = faces, 2 = nodes -/
def dofGet : List (Nat × Nat) → Nat → Nat
  | [], _ => 0
  | p :: r, k => if p.1 = k then p.2 else dofGet r k

/-- the loop `for grid in grids:`; stops at a grid that is not a subdomain (resp. interface) of
    the md-grid, keeping what was registered so far: `assert isinstance(grid, …)` fails for a
    grid of the other kind, `mdg.subdomain_data` / `mdg.interface_data` raise KeyError otherwise -/
def addLoop (e : Env) (name : Nat) (dof : List (Nat × Nat)) (isSub : Bool) :
    State → List Nat → State × Option Err
  | s, [] => (s, none)
  | s, g :: gs =>
    if g ∈ (if isSub then e.subs else e.intfs) then
      addLoop e name dof isSub
        (appendVar e s ⟨s.next, name, g, isSub, dofGet dof 0, dofGet dof 1, dofGet dof 2⟩) gs
    else if g ∈ (if isSub then e.intfs else e.subs) then (s, some .assertion)
    else (s, some .key)

def createOn (e : Env) (s : State) (name : Nat) (dof : List (Nat × Nat)) (isSub : Bool)
    (grids : List Nat) : State × Except Err (List Nat) :=
  if s.vars.any (fun v => v.name == name && grids.contains v.grid) then (s, .error .key) else
  match addLoop e name dof isSub s grids with
  | (s', some err) => (s', .error err)
  | (s', none) =>
    let s'' := cluster e s'
    -- MixedDimensionalVariable(variables): assertion on overlapping domains
    if grids.Nodup then (s'', .ok ((List.range' s.next grids.length)))
    else (s'', .error .assertion)

def create (e : Env) (s : State) (name : Nat) (dof : List (Nat × Nat))
    (subs intfs : Option (List Nat)) : State × Except Err (List Nat) :=
  if dof.any (fun p => decide (2 < p.1)) then (s, .error .value) else
  match subs, intfs with
  | some g, none => createOn e s name dof true g
  | none, some g => createOn e s name dof false g
  | _, _ => (s, .error .value)

/-! ### `remove_variables` -/

def removeLoop (e : Env) : State → List Nat → State × Except Err Unit
  | s, [] => (s, .ok ())
  | s, i :: r =>
    if s.vars.any (fun v => v.id == i) then
      removeLoop e (cluster e { s with vars := s.vars.filter (fun v => v.id != i),
                                        numbers := s.numbers.filter (fun p => p.1 != i) }) r
    else (s, .error .value)

/-! ### `num_dofs`, `dofs_of`, `identify_dof`, `projection_to` -/

def numDofs (s : State) : Nat := s.sizes.sum

/-- `np.hstack((0, np.cumsum(sizes)))[b]` -/
def cum (sizes : List Nat) (b : Nat) : Nat := (sizes.take b).sum

/-- `np.arange(cum[b], cum[b+1])` -/
def blockRange (sizes : List Nat) (b : Nat) : List Nat :=
  List.range' (cum sizes b) (cum sizes (b + 1) - cum sizes b)

def dofsOfIds (s : State) : List Nat → Except Err (List Nat)
  | [] => .ok []
  | i :: r =>
    match numberOf s.numbers i with
    | none => .error .value   -- ValueError: variable not registered among the dofs
    | some b =>
      match dofsOfIds s r with
      | .error err => .error err
      | .ok l => .ok (blockRange s.sizes b ++ l)

/-- the array `hstack((0, cumsum(sizes)))` -/
def cumList : Nat → List Nat → List Nat
  | acc, [] => [acc]
  | acc, x :: xs => acc :: cumList (acc + x) xs

/-- index of the first entry `> dof` -/
def firstGt (dof : Int) : List Nat → Option Nat
  | [] => none
  | c :: cs => if dof < (c : Int) then some 0 else (firstGt dof cs).map (· + 1)

def identify (s : State) (dof : Int) : Except Err Nat :=
  if ¬ (0 ≤ dof ∧ dof < (numDofs s : Int)) then .error .key else
  -- `np.argmax(global_variable_dofs > dof) - 1`
  let variableNumber : Int := (((firstGt dof (cumList 0 s.sizes)).getD 0 : Nat) : Int) - 1
  match (s.numbers.filter (fun p => decide ((p.2 : Int) = variableNumber))).map (·.1) with
  | [i] =>
    match s.vars.filter (fun v => v.id == i) with
    | [v] => .ok v.id
    | _ => .error .assertion
  | _ => .error .assertion

def insertSorted (a : Nat) : List Nat → List Nat
  | [] => [a]
  | b :: l => if a ≤ b then a :: b :: l else b :: insertSorted a l

/-- `np.sort` -/
def isort : List Nat → List Nat
  | [] => []
  | a :: l => insertSorted a (isort l)

/-- `projection_to`: number of rows, number of columns, and for every row the column of its
    single entry 1 -/
def projection (s : State) (refs : Option (List Ref)) : Except Err (Nat × Nat × List Nat) :=
  match refs with
  | none => .ok (0, numDofs s, [])
  | some [] => .ok (0, numDofs s, [])
  | some rs =>
    match dofsOfIds s (parse s (some rs)) with
    | .error err => .error err
    | .ok l => .ok (l.length, numDofs s, isort l)

/-- `P @ x` for the matrix returned by `projection_to` -/
def applyProj (cols : List Nat) (x : List Rat) : List Rat := cols.map (fun j => x.getD j 0)

/-! ### `set_variable_values`, `get_variable_values` -/

def keyOf (v : Var) (slot : Bool × Nat) : Key := ⟨v.grid, slot.1, v.name, slot.2⟩

/-- `_validate_indices` as used by the setter: iterate first, then time step -/
def validateSet (iter ts : Option Int) : Except Err (List (Bool × Nat)) :=
  match iter, ts with
  | none, none => .error .value
  | some i, none => if i < 0 then .error .value else .ok [(true, i.toNat)]
  | none, some t => if t < 0 then .error .value else .ok [(false, t.toNat)]
  | some i, some t =>
    if i < 0 ∨ t < 0 then .error .value else .ok [(true, i.toNat), (false, t.toNat)]

/-- `_validate_indices` + the one-index restriction of the getter -/
def validateGet (iter ts : Option Int) : Except Err (Bool × Nat) :=
  match validateSet iter ts with
  | .error err => .error err
  | .ok [slot] => .ok slot
  | .ok _ => .error .value

/-- numpy's in-place `old += x` for 1-d arrays: equal length, or `x` of length one is broadcast -/
def addVec (old x : List Rat) : Option (List Rat) :=
  if x.length = old.length then some (List.zipWith (· + ·) old x)
  else match x with
    | [a] => some (old.map (· + a))
    | _ => none

/-- `set_solution_values` for one (location, index) -/
def writeOne (st : Store) (k : Key) (additive : Bool) (x : List Rat) : Store × Option Err :=
  if additive then
    match st k with
    | none => (st, some .value)
    | some old =>
      match addVec old x with
      | none => (st, some .value)
      | some r => (st.put k r, none)
  else (st.put k x, none)

def writeSlots (st : Store) (v : Var) (additive : Bool) (x : List Rat) :
    List (Bool × Nat) → Store × Option Err
  | [] => (st, none)
  | sl :: rest =>
    match writeOne st (keyOf v sl) additive x with
    | (st', some err) => (st', some err)
    | (st', none) => writeSlots st' v additive x rest

/-- the loop `for id_, variable_number in self._variable_numbers.items()` of the setter;
    returns the store and the final `dof_end` -/
def setLoop (vars : List Var) (sizes : List Nat) (sel : List Nat)
    (slots : Except Err (List (Bool × Nat))) (additive : Bool) (values : List Rat) :
    Store → Nat → List (Nat × Nat) → Store × Except Err Nat
  | st, start, [] => (st, .ok start)
  | st, start, p :: rest =>
    if p.1 ∈ sel then
      let n := sizes.getD p.2 0
      -- `values[dof_start:dof_end]` (python slices truncate silently)
      let loc := (values.drop start).take n
      match findVar vars p.1 with
      | none => (st, .error .key)
      | some v =>
        match slots with
        | .error err => (st, .error err)
        | .ok sl =>
          match writeSlots st v additive loc sl with
          | (st', some err) => (st', .error err)
          | (st', none) => setLoop vars sizes sel slots additive values st' (start + n) rest
    else setLoop vars sizes sel slots additive values st start rest

def setValsIds (s : State) (values : List Rat) (sel : List Nat)
    (slots : Except Err (List (Bool × Nat))) (additive : Bool) : State × Except Err Unit :=
  match setLoop s.vars s.sizes sel slots additive values s.store 0 s.numbers with
  | (st, .error err) => ({ s with store := st }, .error err)
  | (st, .ok stop) =>
    -- `assert dof_end == values.size` (after the values were written)
    ({ s with store := st }, if stop = values.length then .ok () else .error .assertion)

def getLoop (vars : List Var) (st : Store) (sel : List Nat) (slot : Except Err (Bool × Nat)) :
    List (Nat × Nat) → Except Err (List Rat)
  | [] => .ok []
  | p :: rest =>
    if p.1 ∈ sel then
      match findVar vars p.1 with
      | none => .error .key
      | some v =>
        match slot with
        | .error err => .error err
        | .ok sl =>
          match st (keyOf v sl) with
          | none => .error .key
          | some x =>
            match getLoop vars st sel slot rest with
            | .error err => .error err
            | .ok l => .ok (x ++ l)
    else getLoop vars st sel slot rest

def getValsIds (s : State) (sel : List Nat) (slot : Except Err (Bool × Nat)) :
    Except Err (List Rat) :=
  getLoop s.vars s.store sel slot s.numbers

/-! ### neighbouring entry points: `update_variable_num_dofs`, `md_variable` -/

/-- `update_variable_num_dofs`: for every registered variable (creation order) the entry
    `_variable_num_dofs[_variable_numbers[id]]` is overwritten with the count on the CURRENT grid -/
def updateLoop (e : Env) (numbers : List (Nat × Nat)) : List Nat → List Var → List Nat
  | sizes, [] => sizes
  | sizes, v :: r => updateLoop e numbers (sizes.set ((numberOf numbers v.id).getD 0) (varSize e v)) r

def updateNumDofs (e : Env) (s : State) : State :=
  { s with sizes := updateLoop e s.numbers s.sizes s.vars }

/-- `md_variable(name, domains)`: the atomic variables wrapped by the returned md-variable.
    `domains = None`: all variables of that name; IndexError if there is none (`variables[0]`),
    ValueError if the name lives on subdomains and on interfaces. -/
def mdVariable (s : State) (name : Nat) (domains : Option (List Nat)) : Except Err (List Nat) :=
  match domains with
  | some ds => .ok ((s.vars.filter (fun v => v.name == name && ds.contains v.grid)).map (·.id))
  | none =>
    match s.vars.filter (fun v => v.name == name) with
    | [] => .error .index
    | v :: r => if r.any (fun w => w.sub != v.sub) then .error .value else .ok ((v :: r).map (·.id))

/-! ### programs -/

inductive Op where
  | create (name : Nat) (dof : List (Nat × Nat)) (subs intfs : Option (List Nat))
  | remove (refs : Option (List Ref))
  | setVals (values : List Rat) (refs : Option (List Ref)) (iter ts : Option Int) (additive : Bool)
  | getVals (refs : Option (List Ref)) (iter ts : Option Int)
  | dofsOf (refs : Option (List Ref))
  | identify (dof : Int)
  | projection (refs : Option (List Ref))
  | numDofs
  | updateNumDofs
  | mdVariable (name : Nat) (domains : Option (List Nat))

inductive Out where
  | unit
  | ids (l : List Nat)
  | rats (l : List Rat)
  | proj (rows cols : Nat) (idx : List Nat)
  | num (n : Nat)
deriving DecidableEq, Repr

def step (e : Env) (s : State) : Op → State × Except Err Out
  | .create name dof subs intfs =>
    let r := create e s name dof subs intfs
    (r.1, r.2.map Out.ids)
  | .remove refs =>
    let r := removeLoop e s (parse s refs)
    (r.1, r.2.map (fun _ => Out.unit))
  | .setVals values refs iter ts additive =>
    let r := setValsIds s values (parse s refs) (validateSet iter ts) additive
    (r.1, r.2.map (fun _ => Out.unit))
  | .getVals refs iter ts => (s, (getValsIds s (parse s refs) (validateGet iter ts)).map Out.rats)
  | .dofsOf refs => (s, (dofsOfIds s (parse s refs)).map Out.ids)
  | .identify dof => (s, (identify s dof).map Out.num)
  | .projection refs => (s, (projection s refs).map (fun r => Out.proj r.1 r.2.1 r.2.2))
  | .numDofs => (s, .ok (Out.num (numDofs s)))
  | .updateNumDofs => (updateNumDofs e s, .ok Out.unit)
  | .mdVariable name domains => (s, (mdVariable s name domains).map Out.ids)

/-- the state after a history of calls -/
def run (e : Env) : State → List Op → State
  | s, [] => s
  | s, op :: ops => run e (step e s op).1 ops

/-- the outputs of a history of calls -/
def outputs (e : Env) : State → List Op → List (Except Err Out)
  | _, [] => []
  | s, op :: ops => (step e s op).2 :: outputs e (step e s op).1 ops

/-! ### specification vocabulary (used by the statements in Props.lean) -/

/-- The layout invariant of the state. -/
structure Inv (e : Env) (s : State) : Prop where
  /-- in dict order, `_variable_numbers` reads 0, 1, 2, … -/
  numbered : s.numbers = numberFrom 0 (s.numbers.map (·.1))
  /-- the keys of `_variable_numbers` are exactly the registered variables, each once -/
  perm : (s.numbers.map (·.1)).Perm (s.vars.map (·.id))
  /-- `_variables` is in creation order -/
  idsLt : (s.vars.map (·.id)).Pairwise (· < ·)
  fresh : ∀ v ∈ s.vars, v.id < s.next
  /-- one block size per block -/
  sizesLen : s.sizes.length = s.numbers.length
  /-- every variable lives on a grid of the md-grid, of the right kind -/
  kindOk : ∀ v ∈ s.vars, v.grid ∈ (if v.sub then e.subs else e.intfs)
  /-- the size of a variable's block is its number of dofs -/
  sizeOk : ∀ v ∈ s.vars, sizeOf s v.id = varSize e v

/-- blocks appear in the order produced by `_cluster_dofs_gridwise` -/
def Clustered (e : Env) (s : State) : Prop :=
  s.numbers.map (·.1) = (clusterOrder e s.vars).map (·.id)

/-- no two registered variables share name and domain (they would share their storage) -/
def KeysUnique (s : State) : Prop :=
  s.vars.Pairwise (fun v w => ¬ (v.name = w.name ∧ v.grid = w.grid))

/-- position of a grid in the md-grid listing -/
def gridPos (e : Env) (g : Nat) : Nat := e.order.idxOf g

/-- a `create` call names only grids of the md-grid, of the right kind -/
def GridsKnown (e : Env) : Op → Prop
  | .create _ _ (some g) none => ∀ x ∈ g, x ∈ e.subs
  | .create _ _ none (some g) => ∀ x ∈ g, x ∈ e.intfs
  | _ => True

/-- a `create` call does not repeat a grid -/
def GridsNodup : Op → Prop
  | .create _ _ (some g) none => g.Nodup
  | .create _ _ none (some g) => g.Nodup
  | _ => True

instance (e : Env) (op : Op) : Decidable (GridsKnown e op) := by
  unfold GridsKnown; split <;> infer_instance

instance (op : Op) : Decidable (GridsNodup op) := by
  unfold GridsNodup; split <;> infer_instance

/-- the global index `d` lies in the block of the variable with id `i` -/
def owns (s : State) (i d : Nat) : Prop :=
  ∃ b, numberOf s.numbers i = some b ∧ cum s.sizes b ≤ d ∧ d < cum s.sizes (b + 1)

/-- total number of dofs of the blocks selected by `sel`, and the blocks themselves -/
def selected (s : State) (sel : List Nat) : List (Nat × Nat) := s.numbers.filter (fun p => p.1 ∈ sel)

def selectedSize (s : State) (sel : List Nat) : Nat :=
  ((selected s sel).map (fun p => s.sizes.getD p.2 0)).sum

/-- the layout is the one `_cluster_dofs_gridwise` produces from the registered variables alone -/
def Canonical (e : Env) (s : State) : Prop :=
  s.numbers = numberFrom 0 ((clusterOrder e s.vars).map (·.id)) ∧
  s.sizes = (clusterOrder e s.vars).map (varSize e)

/-- one `remove_variables` call per variable, in the order `ids` -/
def seqRemove (e : Env) (s : State) (ids : List Nat) : State :=
  ids.foldl (fun st i => (removeLoop e st [i]).1) s

end PorepyVerif.C05
