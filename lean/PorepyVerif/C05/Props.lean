/-
C05 — property theorems (statements only depend on Model.lean; helper lemmas in Lemmas.lean).

Property: after any sequence of variable creations and removals on subdomains and interfaces, the
index sets of all registered variables partition 0..num_dofs-1 into contiguous blocks ordered by
subdomain order, then interface order, then creation order.  Looking up the variable owning any
index returns the variable whose block contains it, projections select exactly those indices, and
setting then getting values for any subset of variables in global order returns the written values.

`e.order.Nodup` (a grid is listed once by the md-grid) is the only assumption on the grid.
-/
import PorepyVerif.C05.Lemmas

namespace PorepyVerif.C05

/-! ### the layout invariant holds after every history -/

theorem inv_init (e : Env) : Inv e init :=
  ⟨rfl, List.Perm.refl _, List.Pairwise.nil, by simp [init], rfl, by simp [init], by simp [init]⟩

/-- Every call — well-formed or not, succeeding or raising half-way — preserves the invariant. -/
theorem inv_step (e : Env) (hn : e.order.Nodup) (s : State) (op : Op) (h : Inv e s) :
    Inv e (step e s op).1 := by
  cases op with
  | create name dof subs intfs => exact create_inv e hn s name dof subs intfs h
  | remove refs => exact removeLoop_inv e hn _ s h
  | setVals values refs iter ts additive => exact setValsIds_inv e s values _ _ additive h
  | getVals refs iter ts => exact h
  | dofsOf refs => exact h
  | identify dof => exact h
  | projection refs => exact h
  | numDofs => exact h
  | updateNumDofs => exact updateNumDofs_inv e e rfl rfl s h
  | mdVariable name domains => exact h

theorem inv_run (e : Env) (hn : e.order.Nodup) (ops : List Op) (s : State) (h : Inv e s) :
    Inv e (run e s ops) := by
  induction ops generalizing s with
  | nil => exact h
  | cons op ops ih => exact ih _ (inv_step e hn s op h)

/-- … hence in every state reachable from a fresh `EquationSystem`. -/
theorem inv_reachable (e : Env) (hn : e.order.Nodup) (ops : List Op) : Inv e (run e init ops) :=
  inv_run e hn ops init (inv_init e)

/-- What the invariant says: read in dict order the block numbers are 0,1,…,#variables-1, their keys
    are the registered variables (each exactly once), there is one size per block, and the size of
    the block of a variable is its number of dofs on its grid. -/
theorem numbers_bijection (e : Env) (s : State) (h : Inv e s) :
    s.numbers.map (·.2) = List.range s.vars.length ∧
    (s.numbers.map (·.1)).Perm (s.vars.map (·.id)) ∧ (s.vars.map (·.id)).Nodup ∧
    s.sizes.length = s.vars.length ∧
    ∀ v ∈ s.vars, ∃ b, numberOf s.numbers v.id = some b ∧ s.sizes[b]? = some (varSize e v) := by
  have hlen : s.numbers.length = s.vars.length := by
    have := h.perm.length_eq; simpa using this
  refine ⟨?_, h.perm, h.idsLt.imp (fun hab => Nat.ne_of_lt hab), by rw [h.sizesLen, hlen], ?_⟩
  · rw [h.numbered, map_snd_numberFrom, List.range_eq_range']
    simp [hlen]
  · intro v hv
    obtain ⟨b, hb, hlt, _⟩ := inv_numberOf_of_mem h v hv
    refine ⟨b, hb, ?_⟩
    have := h.sizeOk v hv
    unfold sizeOf at this
    rw [hb] at this
    rw [List.getElem?_eq_getElem hlt]
    simpa [List.getD_eq_getElem?_getD, List.getElem?_eq_getElem hlt] using this

/-! ### cluster order: subdomain order, then interface order, then creation order -/

theorem clustered_step (e : Env) (s : State) (op : Op) (hk : GridsKnown e op) (h : Clustered e s) :
    Clustered e (step e s op).1 := by
  cases op with
  | create name dof subs intfs =>
    show Clustered e (create e s name dof subs intfs).1
    unfold create
    split
    · exact h
    · split
      · exact createOn_clustered e s name dof true _ (by simpa [GridsKnown] using hk) h
      · exact createOn_clustered e s name dof false _ (by simpa [GridsKnown] using hk) h
      · exact h
  | remove refs => exact removeLoop_clustered e _ s h
  | setVals values refs iter ts additive =>
    show Clustered e (setValsIds s values _ _ additive).1
    unfold setValsIds
    split <;> exact h
  | getVals refs iter ts => exact h
  | dofsOf refs => exact h
  | identify dof => exact h
  | projection refs => exact h
  | numDofs => exact h
  | updateNumDofs => exact h
  | mdVariable name domains => exact h

theorem clustered_run (e : Env) (ops : List Op) (hk : ∀ op ∈ ops, GridsKnown e op) (s : State)
    (h : Clustered e s) : Clustered e (run e s ops) := by
  induction ops generalizing s with
  | nil => exact h
  | cons op ops ih =>
    exact ih (fun o ho => hk o (List.mem_cons_of_mem _ ho)) _
      (clustered_step e s op (hk op List.mem_cons_self) h)

/-- After any history whose `create` calls name grids of the md-grid, the blocks are in the order in
    which `_cluster_dofs_gridwise` enumerates the registered variables. -/
theorem clustered_reachable (e : Env) (ops : List Op) (hk : ∀ op ∈ ops, GridsKnown e op) :
    Clustered e (run e init ops) :=
  clustered_run e ops hk init (by simp [Clustered, init, clusterOrder])

/-- …and that order is: position of the grid in the md-grid listing (subdomains, then interfaces),
    then creation order; every registered variable has exactly one block. -/
theorem cluster_order (e : Env) (hn : e.order.Nodup) (s : State) (h : Inv e s) (hc : Clustered e s) :
    ∃ blocks : List Var, blocks.map (·.id) = s.numbers.map (·.1) ∧ blocks.Perm s.vars ∧
      blocks.Pairwise (fun v w =>
        gridPos e v.grid < gridPos e w.grid ∨ (v.grid = w.grid ∧ v.id < w.id)) :=
  ⟨clusterOrder e s.vars, hc.symm,
    clusterOrder_perm e hn s.vars (fun v hv => kind_order e v (h.kindOk v hv)),
    clusterOrder_pairwise e hn s.vars h.idsLt⟩

/-! ### the blocks partition `[0, num_dofs)` -/

/-- `dofs_of` of one registered variable is the contiguous range starting at the cumulative size of
    the preceding blocks, of length the variable's number of dofs. -/
theorem dofs_of_block (e : Env) (s : State) (h : Inv e s) (v : Var) (hv : v ∈ s.vars) :
    ∃ b, numberOf s.numbers v.id = some b ∧
      dofsOfIds s [v.id] = .ok (List.range' (cum s.sizes b) (varSize e v)) := by
  obtain ⟨b, hb, hlt, _⟩ := inv_numberOf_of_mem h v hv
  refine ⟨b, hb, ?_⟩
  have hs := h.sizeOk v hv
  unfold sizeOf at hs
  rw [hb] at hs
  simp only [Option.getD_some] at hs
  simp only [dofsOfIds, hb, blockRange_eq s.sizes b hlt, hs, List.append_nil]

/-- Taken in block order, the index sets of all registered variables are consecutive and tile
    `0 .. num_dofs-1`. -/
theorem dofs_partition (e : Env) (s : State) (h : Inv e s) :
    dofsOfIds s (s.numbers.map (·.1)) = .ok (List.range (numDofs s)) := by
  have := dofsOfIds_consecutive s (s.numbers.map (·.1)) 0 (fun j hj => by
    simpa using inv_numberOf_idx h j hj)
  rw [this]
  have hl : (s.numbers.map (·.1)).length = s.sizes.length := by simp [h.sizesLen]
  simp [hl, cum_length, numDofs, List.range_eq_range']

/-! ### `identify_dof` -/

/-- For every index in range, `identify_dof` returns a registered variable whose block contains the
    index (zero-size blocks are skipped), and no other variable's block contains it. -/
theorem identify_spec (e : Env) (s : State) (h : Inv e s) (d : Nat) (hd : d < numDofs s) :
    ∃ v ∈ s.vars, identify s (d : Int) = .ok v.id ∧ owns s v.id d ∧ ∀ i, owns s i d → i = v.id := by
  obtain ⟨v, hv, b, h1, h2, _, h4, h5⟩ := identify_ok h d hd
  exact ⟨v, hv, h1, ⟨b, h2, h4, h5⟩, fun i hi => owns_unique h i v.id d hi ⟨b, h2, h4, h5⟩⟩

/-- Outside `0 .. num_dofs-1` it raises `KeyError`. -/
theorem identify_out_of_range (s : State) (d : Int) (h : d < 0 ∨ (numDofs s : Int) ≤ d) :
    identify s d = .error .key := by
  unfold identify
  have : ¬ (0 ≤ d ∧ d < (numDofs s : Int)) := by omega
  simp [this]

/-! ### `projection_to` -/

/-- The projection onto a non-empty list of variables has one row per selected dof, `num_dofs`
    columns, its rows pick the selected indices in increasing order, an index is picked iff it lies
    in the block of one of the variables, and exactly once if no variable is listed twice. -/
theorem projection_selects (e : Env) (s : State) (h : Inv e s) (r0 : Ref) (refs : List Ref)
    (rows cols : Nat) (idx : List Nat) (hp : projection s (some (r0 :: refs)) = .ok (rows, cols, idx)) :
    cols = numDofs s ∧ rows = idx.length ∧ idx.Pairwise (· ≤ ·) ∧
    (∀ d, d ∈ idx ↔ ∃ i ∈ parse s (some (r0 :: refs)), owns s i d) ∧
    ((parse s (some (r0 :: refs))).Nodup → idx.Pairwise (· < ·)) := by
  unfold projection at hp
  cases hd : dofsOfIds s (parse s (some (r0 :: refs))) with
  | error err => simp [hd] at hp
  | ok l =>
    simp only [hd, Except.ok.injEq, Prod.mk.injEq] at hp
    obtain ⟨h1, h2, h3⟩ := hp
    subst h1 h2 h3
    refine ⟨rfl, (perm_isort l).length_eq.symm, sorted_isort l, ?_, ?_⟩
    · intro d
      rw [(perm_isort l).mem_iff]
      exact mem_dofsOfIds s _ l hd d
    · intro hnd
      exact strict_of_sorted_nodup _ (sorted_isort l)
        ((perm_isort l).nodup_iff.mpr (nodup_dofsOfIds h _ l hnd hd))

/-! ### storage keys -/

theorem keys_unique_step (e : Env) (s : State) (op : Op) (hg : GridsNodup op) (h : KeysUnique s) :
    KeysUnique (step e s op).1 := by
  cases op with
  | create name dof subs intfs =>
    show KeysUnique (create e s name dof subs intfs).1
    unfold create
    split
    · exact h
    · split
      · exact createOn_keys e s name dof true _ (by simpa [GridsNodup] using hg) h
      · exact createOn_keys e s name dof false _ (by simpa [GridsNodup] using hg) h
      · exact h
  | remove refs => exact removeLoop_keys e _ s h
  | setVals values refs iter ts additive =>
    show KeysUnique (setValsIds s values _ _ additive).1
    unfold setValsIds
    split <;> exact h
  | getVals refs iter ts => exact h
  | dofsOf refs => exact h
  | identify dof => exact h
  | projection refs => exact h
  | numDofs => exact h
  | updateNumDofs => exact h
  | mdVariable name domains => exact h

/-- After any history whose `create` calls do not repeat a grid, no two registered variables share
    name and domain, i.e. every variable has its own storage. -/
theorem keys_unique_reachable (e : Env) (ops : List Op) (hg : ∀ op ∈ ops, GridsNodup op) :
    KeysUnique (run e init ops) := by
  suffices ∀ s, KeysUnique s → KeysUnique (run e s ops) from this init List.Pairwise.nil
  induction ops with
  | nil => exact fun s h => h
  | cons op ops ih =>
    intro s h
    exact ih (fun o ho => hg o (List.mem_cons_of_mem _ ho)) _
      (keys_unique_step e s op (hg op List.mem_cons_self) h)

/-- `_validate_indices` yields distinct storage slots. -/
theorem validateSet_nodup (iter ts : Option Int) (sl : List (Bool × Nat))
    (h : validateSet iter ts = .ok sl) : sl.Nodup ∧ sl ≠ [] := by
  unfold validateSet at h
  split at h
  · cases h
  · split at h
    · cases h
    · cases h; simp
  · split at h
    · cases h
    · cases h; simp
  · split at h
    · cases h
    · cases h; simp

/-! ### set then get -/

/-- Overwrite: for any subset `sel` of variables (any order, repetitions allowed), any slots, and a
    vector whose length is the number of selected dofs, the write succeeds and reading the same
    subset returns exactly the written vector. -/
theorem set_get_roundtrip (e : Env) (s : State) (hI : Inv e s) (hK : KeysUnique s) (sel : List Nat)
    (values : List Rat) (sl : List (Bool × Nat)) (hsl : sl.Nodup) (slot : Bool × Nat) (hslot : slot ∈ sl)
    (hlen : values.length = selectedSize s sel) :
    (setValsIds s values sel (.ok sl) false).2 = .ok () ∧
    getValsIds (setValsIds s values sel (.ok sl) false).1 sel (.ok slot) = .ok values := by
  have key := set_get_loop s.vars s.sizes sel sl false values slot hsl hslot s.numbers
    (inv_nodup_ids hI) (fun p hp _ => inv_N2 hI p hp)
    (fun p _ q _ hpq v w hv hw => inv_N3 hI hK p.1 q.1 hpq v w hv hw)
    s.store 0 (by rw [← selectedSize_eq, ← hlen]; omega) [] (by simp) (by simp)
  rw [← selectedSize_eq, ← hlen] at key
  unfold setValsIds getValsIds
  rcases hR : setLoop s.vars s.sizes sel (.ok sl) false values s.store 0 s.numbers with ⟨st', r⟩
  rw [hR] at key
  obtain ⟨k1, k2⟩ := key
  simp only at k1 k2
  subst k1
  simpa using k2

/-- Additive write: if every selected variable holds values of the right length in all addressed
    slots, the write succeeds and reading returns old + written, entry by entry. -/
theorem set_get_additive (e : Env) (s : State) (hI : Inv e s) (hK : KeysUnique s) (sel : List Nat)
    (values : List Rat) (sl : List (Bool × Nat)) (hsl : sl.Nodup) (slot : Bool × Nat) (hslot : slot ∈ sl)
    (hlen : values.length = selectedSize s sel)
    (hstored : ∀ v ∈ s.vars, v.id ∈ sel → ∀ s' ∈ sl,
      ∃ o, s.store (keyOf v s') = some o ∧ o.length = varSize e v)
    (old : List Rat) (hold : getValsIds s sel (.ok slot) = .ok old) :
    (setValsIds s values sel (.ok sl) true).2 = .ok () ∧
    getValsIds (setValsIds s values sel (.ok sl) true).1 sel (.ok slot) =
      .ok (List.zipWith (· + ·) old values) := by
  have key := set_get_loop s.vars s.sizes sel sl true values slot hsl hslot s.numbers
    (inv_nodup_ids hI) (fun p hp _ => inv_N2 hI p hp)
    (fun p _ q _ hpq v w hv hw => inv_N3 hI hK p.1 q.1 hpq v w hv hw)
    s.store 0 (by rw [← selectedSize_eq, ← hlen]; omega) old
    (by
      intro _ p hp hps v hv s' hs'
      obtain ⟨hv1, hv2⟩ := findVar_some _ _ _ hv
      obtain ⟨o, ho, hol⟩ := hstored v hv1 (hv2 ▸ hps) s' hs'
      exact ⟨o, ho, by rw [hol, inv_size_of_block hI p hp v hv]⟩)
    (fun _ => hold)
  rw [← selectedSize_eq, ← hlen] at key
  unfold setValsIds getValsIds
  rcases hR : setLoop s.vars s.sizes sel (.ok sl) true values s.store 0 s.numbers with ⟨st', r⟩
  rw [hR] at key
  obtain ⟨k1, k2⟩ := key
  simp only at k1 k2
  subst k1
  simpa using k2

/-- A write to the variables `sel` (whatever its outcome) leaves the values of all other variables
    untouched. -/
theorem set_frame (e : Env) (s : State) (hI : Inv e s) (hK : KeysUnique s) (sel sel' : List Nat)
    (hdisj : ∀ i ∈ sel', i ∉ sel) (values : List Rat) (slots : Except Err (List (Bool × Nat)))
    (additive : Bool) (slot' : Bool × Nat) :
    getValsIds (setValsIds s values sel slots additive).1 sel' (.ok slot') =
      getValsIds s sel' (.ok slot') := by
  have hst : (setValsIds s values sel slots additive).1 =
      { s with store := (setLoop s.vars s.sizes sel slots additive values s.store 0 s.numbers).1 } := by
    unfold setValsIds
    split <;> rename_i heq <;> rw [heq]
  rw [hst]
  unfold getValsIds
  apply getLoop_congr
  intro p hp hps' v hv
  apply setLoop_frame
  intro q hq hqs w hw sl _ s'' _ he
  have hne : p.1 ≠ q.1 := fun e => hdisj p.1 hps' (e ▸ hqs)
  have := (keyOf_eq_iff v w slot' s'').mp he
  exact inv_N3 hI hK p.1 q.1 hne v w hv hw ⟨this.2.1, this.1⟩

/-- Reading (and writing) depends only on WHICH variables are passed, not on their order or on
    repetitions: the values always come in global (block) order. -/
theorem get_order_irrelevant (s : State) (sel sel' : List Nat) (h : ∀ i, i ∈ sel ↔ i ∈ sel')
    (slot : Except Err (Bool × Nat)) (values : List Rat) (slots : Except Err (List (Bool × Nat)))
    (additive : Bool) :
    getValsIds s sel slot = getValsIds s sel' slot ∧
    setValsIds s values sel slots additive = setValsIds s values sel' slots additive := by
  refine ⟨getLoop_sel_congr _ _ _ _ _ _ h, ?_⟩
  unfold setValsIds
  rw [setLoop_sel_congr _ _ _ _ _ _ _ _ _ _ h]

/-- "In global order": if every registered variable holds values of the right length in `slot`,
    then the global vector (variables = None) has `num_dofs` entries and the values read for any
    duplicate-free list `sel` of registered variables are the entries of the global vector at the
    sorted dof indices of `sel` — i.e. `get(sel) = projection_to(sel) · get(all)`, whatever the
    order in which `sel` lists the variables. -/
theorem get_is_projection_of_global (e : Env) (s : State) (hI : Inv e s) (slot : Bool × Nat)
    (sel : List Nat) (hsel : sel.Nodup) (hreg : ∀ i ∈ sel, i ∈ s.vars.map (·.id))
    (hstored : ∀ v ∈ s.vars, ∃ o, s.store (keyOf v slot) = some o ∧ o.length = varSize e v)
    (g x : List Rat) (l : List Nat)
    (hg : getValsIds s (s.vars.map (·.id)) (.ok slot) = .ok g)
    (hx : getValsIds s sel (.ok slot) = .ok x) (hl : dofsOfIds s sel = .ok l) :
    g.length = numDofs s ∧ x = applyProj (isort l) g := by
  have hreg' : ∀ i ∈ sel, i ∈ s.numbers.map (·.1) := fun i hi => hI.perm.mem_iff.mpr (hreg i hi)
  unfold getValsIds at hg hx
  rw [hI.numbered] at hg hx
  have key := get_sel_eq_applyProj s.vars s.sizes sel (s.vars.map (·.id)) slot s.store
    (s.numbers.map (·.1)) 0 (by simp [hI.sizesLen])
    (fun i hi => hI.perm.mem_iff.mp hi)
    (by
      intro j hj
      obtain ⟨v, hv⟩ := findVar_of_mem_ids s.vars _ (hI.perm.mem_iff.mp (List.getElem_mem hj))
      obtain ⟨hv1, hv2⟩ := findVar_some _ _ _ hv
      obtain ⟨o, ho, hol⟩ := hstored v hv1
      refine ⟨v, o, hv, ho, ?_⟩
      have hs := hI.sizeOk v hv1
      unfold sizeOf at hs
      rw [hv2, inv_numberOf_idx hI j hj] at hs
      simp only [Option.getD_some] at hs
      rw [hol, Nat.zero_add, hs])
    [] g x (by simp) hg hx
  obtain ⟨k1, k2⟩ := key
  refine ⟨?_, ?_⟩
  · have hlen : (s.numbers.map (·.1)).length = s.sizes.length := by simp [hI.sizesLen]
    rw [Nat.zero_add, hlen, cum_length] at k1
    simpa [numDofs] using k1
  · rw [isort_dofs_eq_selIdx hI sel l hsel hreg' hl, k2, ← hI.numbered]
    rfl

/-! ### index validation of the getter and the setter -/

/-- `_validate_indices` + the one-index rule of `get_solution_values`: exactly one non-negative
    index is accepted; both given, both None, or a negative index are a ValueError. -/
theorem validateGet_spec (iter ts : Option Int) :
    validateGet iter ts =
      match iter, ts with
      | some i, none => if i < 0 then .error .value else .ok (true, i.toNat)
      | none, some t => if t < 0 then .error .value else .ok (false, t.toNat)
      | _, _ => .error .value := by
  cases iter <;> cases ts
  · simp [validateGet, validateSet]
  · rename_i t; by_cases h : t < 0 <;> simp [validateGet, validateSet, h]
  · rename_i i; by_cases h : i < 0 <;> simp [validateGet, validateSet, h]
  · rename_i i t; by_cases h : i < 0 ∨ t < 0 <;> simp [validateGet, validateSet, h]

/-- A read with inadmissible indices never changes the state; it raises ValueError as soon as one
    requested variable is registered, and returns the empty vector otherwise. -/
theorem get_bad_indices (e : Env) (s : State) (hI : Inv e s) (refs : Option (List Ref))
    (iter ts : Option Int) (err : Err) (hbad : validateGet iter ts = .error err) :
    step e s (.getVals refs iter ts) =
      (s, if selected s (parse s refs) = [] then .ok (.rats []) else .error err) := by
  show (s, (getValsIds s (parse s refs) (validateGet iter ts)).map Out.rats) = _
  rw [hbad]
  unfold getValsIds selected
  rw [getLoop_error_slot _ _ _ _ _ (fun p hp => inv_N2 hI p hp)]
  split <;> rfl

/-- A write with inadmissible indices never changes the state either: ValueError as soon as one
    addressed variable is registered; otherwise only the final size assertion is evaluated. -/
theorem set_bad_indices (e : Env) (s : State) (hI : Inv e s) (values : List Rat)
    (refs : Option (List Ref)) (iter ts : Option Int) (additive : Bool) (err : Err)
    (hbad : validateSet iter ts = .error err) :
    step e s (.setVals values refs iter ts additive) =
      (s, if selected s (parse s refs) = [] then
            (if values = [] then .ok .unit else .error .assertion)
          else .error err) := by
  show ((setValsIds s values (parse s refs) (validateSet iter ts) additive).1,
    (setValsIds s values (parse s refs) (validateSet iter ts) additive).2.map (fun _ => Out.unit)) = _
  rw [hbad]
  unfold setValsIds selected
  rw [setLoop_error_slot _ _ _ _ _ _ _ _ _ (fun p hp => inv_N2 hI p hp)]
  by_cases hsel : s.numbers.filter (fun p => decide (p.1 ∈ parse s refs)) = []
  · simp only [hsel, if_true]
    cases values with
    | nil => simp; rfl
    | cons a r => simp; rfl
  · simp only [hsel, if_false]
    rfl

/-! ### removing several variables in one call -/

/-- Removing a duplicate-free list of registered variables in ONE call succeeds and gives exactly
    the state obtained by one call per variable, taken in ANY order `ids'`; the remaining variables
    are the others, and the layout is the canonical clustering of what remains. -/
theorem remove_multi_eq_sequential (e : Env) (hn : e.order.Nodup) (s : State) (hI : Inv e s)
    (ids ids' : List Nat) (hp : ids.Perm ids') (hnd : ids.Nodup)
    (hreg : ∀ i ∈ ids, i ∈ s.vars.map (·.id)) :
    (removeLoop e s ids).2 = .ok () ∧
    (removeLoop e s ids).1 = seqRemove e s ids' ∧
    (removeLoop e s ids).1.vars = s.vars.filter (fun v => !(ids.contains v.id)) ∧
    (ids ≠ [] → Canonical e (removeLoop e s ids).1) := by
  have hnd' := hp.nodup_iff.mp hnd
  have hreg' : ∀ i ∈ ids', i ∈ s.vars.map (·.id) := fun i hi => hreg i (hp.mem_iff.mpr hi)
  refine ⟨?_, ?_, ?_, ?_⟩
  · by_cases hnil : ids = []
    · subst hnil; rfl
    · exact (removeLoop_spec e hn ids s hI hnd hreg (Or.inr hnil)).1
  · rw [seqRemove_eq e hn ids' s hI hnd' hreg']
    exact removeLoop_perm e hn s hI ids ids' hp hnd hreg
  · by_cases hnil : ids = []
    · subst hnil
      exact (List.filter_eq_self.mpr (fun _ _ => rfl)).symm
    · exact (removeLoop_spec e hn ids s hI hnd hreg (Or.inr hnil)).2.1
  · intro hnil
    exact (removeLoop_spec e hn ids s hI hnd hreg (Or.inr hnil)).2.2.1

/-! ### neighbouring entry points and calls that succeed -/

/-- `update_variable_num_dofs` after the grids changed their entity counts (same md-grid listing):
    the layout invariant holds for the NEW grid, i.e. every block again has its variable's dof count
    and all statements above (partition, lookup, projection, values) apply to the resized system. -/
theorem update_num_dofs_inv (e e' : Env) (hs : e'.subs = e.subs) (hi : e'.intfs = e.intfs) (s : State)
    (h : Inv e s) : Inv e' (step e' s .updateNumDofs).1 ∧ (step e' s .updateNumDofs).2 = .ok .unit :=
  ⟨updateNumDofs_inv e e' hs hi s h, rfl⟩

/-- No assumption on the history: whenever a `create_variables` call returns (does not raise), or a
    `remove_variables` call on a non-empty list returns, the layout is in cluster order afterwards —
    so the order clause holds after every successful call, also after earlier half-failed ones. -/
theorem success_implies_clustered (e : Env) (s : State) :
    (∀ name dof subs intfs out, (step e s (.create name dof subs intfs)).2 = .ok out →
      Clustered e (step e s (.create name dof subs intfs)).1) ∧
    (∀ refs, parse s refs ≠ [] → (step e s (.remove refs)).2 = .ok .unit →
      Clustered e (step e s (.remove refs)).1) := by
  constructor
  · intro name dof subs intfs out h
    show Clustered e (create e s name dof subs intfs).1
    cases hc : (create e s name dof subs intfs).2 with
    | error err =>
      have : (step e s (.create name dof subs intfs)).2 = .error err := by
        show ((create e s name dof subs intfs).2).map Out.ids = _
        rw [hc]; rfl
      rw [this] at h; cases h
    | ok ids => exact create_ok_clustered e s name dof subs intfs ids hc
  · intro refs hne h
    show Clustered e (removeLoop e s (parse s refs)).1
    cases hp : parse s refs with
    | nil => exact absurd hp hne
    | cons i r =>
      apply removeLoop_ok_clustered
      cases hr : (removeLoop e s (i :: r)).2 with
      | ok u => rfl
      | error err =>
        have : (step e s (.remove refs)).2 = .error err := by
          show ((removeLoop e s (parse s refs)).2).map (fun _ => Out.unit) = _
          rw [hp, hr]; rfl
        rw [this] at h; cases h

theorem parse_of_vars_eq (s s' : State) (h : s'.vars = s.vars) (refs : Option (List Ref)) :
    parse s' refs = parse s refs := by
  have hr : parseRef s' = parseRef s := by
    funext r
    cases r with
    | name n => show (s'.vars.filter _).map _ = (s.vars.filter _).map _; rw [h]
    | var i => rfl
  cases refs with
  | none => show s'.vars.map _ = s.vars.map _; rw [h]
  | some rs => show rs.flatMap (parseRef s') = rs.flatMap (parseRef s); rw [hr]

/-- The round trip through the public entry points: `set_variable_values(values, refs, …)` followed
    by `get_variable_values(refs', …)` for ANY argument `refs'` denoting the same variables (names,
    Variables, md-variables, in any order) at one of the written slots returns `values`. -/
theorem set_then_get_op (e : Env) (s : State) (hI : Inv e s) (hK : KeysUnique s)
    (refs refs' : Option (List Ref)) (hsame : ∀ i, i ∈ parse s refs ↔ i ∈ parse s refs')
    (values : List Rat) (iter ts iter' ts' : Option Int) (sl : List (Bool × Nat)) (slot : Bool × Nat)
    (hv : validateSet iter ts = .ok sl) (hg : validateGet iter' ts' = .ok slot) (hslot : slot ∈ sl)
    (hlen : values.length = selectedSize s (parse s refs)) :
    outputs e s [.setVals values refs iter ts false, .getVals refs' iter' ts'] =
      [.ok .unit, .ok (.rats values)] := by
  obtain ⟨r1, r2⟩ := set_get_roundtrip e s hI hK (parse s refs) values sl (validateSet_nodup iter ts sl hv).1
    slot hslot hlen
  have hparse : parse (setValsIds s values (parse s refs) (.ok sl) false).1 refs' = parse s refs' := by
    apply parse_of_vars_eq
    unfold setValsIds; split <;> rfl
  simp only [outputs, step, hv, hg, r1, hparse]
  rw [← (get_order_irrelevant _ (parse s refs) (parse s refs') hsame (.ok slot) [] (.ok []) false).1, r2]
  rfl

/-- `md_variable(name)` wraps exactly the registered variables of that name, in creation order — the
    same variables the string `name` denotes in every VariableList argument — and raises IndexError
    when there is none; with `domains` it is the sub-list on those domains. -/
theorem md_variable_spec (s : State) (name : Nat) :
    (∀ ids, mdVariable s name none = .ok ids → ids = parse s (some [.name name]) ∧ ids ≠ []) ∧
    (parse s (some [.name name]) = [] → mdVariable s name none = .error .index) ∧
    (∀ ds, mdVariable s name (some ds) =
      .ok ((s.vars.filter (fun v => v.name == name && ds.contains v.grid)).map (·.id))) := by
  refine ⟨fun ids h => mdVariable_none_ok s name ids h, ?_, fun ds => rfl⟩
  intro h
  have : s.vars.filter (fun v => v.name == name) = [] := by
    simpa [parse, parseRef] using h
  simp [mdVariable, this]

/-! ### non-vacuity: a concrete md-grid and history -/

/-- md-grid with a 2-d subdomain (key 2), a 1-d subdomain (key 0) and an interface (key 1) -/
def exEnv : Env :=
  ⟨[2, 0], [1], fun g => if g = 2 then 2 else if g = 0 then 3 else 2,
    fun g => if g = 2 then 7 else if g = 0 then 4 else 0,
    fun g => if g = 2 then 6 else if g = 0 then 4 else 0⟩

/-- create p (cells+faces) on both subdomains in the order [1-d, 2-d], λ (2 per cell) on the
    interface, an empty variable on the 2-d grid; then remove and re-create p on the 1-d grid -/
def exOps : List Op :=
  [.create 0 [(0, 1), (1, 1)] (some [0, 2]) none, .create 1 [(0, 2)] none (some [1]),
   .create 2 [] (some [2]) none, .remove (some [.var 0]), .create 0 [(2, 1)] (some [0]) none]

instance {α : Type} [DecidableEq α] : DecidableEq (Except Err α) := fun a b =>
  match a, b with
  | .ok x, .ok y => if h : x = y then isTrue (h ▸ rfl) else isFalse (fun e => h (Except.ok.inj e))
  | .error x, .error y => if h : x = y then isTrue (h ▸ rfl) else isFalse (fun e => h (Except.error.inj e))
  | .ok _, .error _ => isFalse (fun e => by cases e)
  | .error _, .ok _ => isFalse (fun e => by cases e)

example : exEnv.order.Nodup := by decide

example : (run exEnv init exOps).numbers = [(1, 0), (3, 1), (4, 2), (2, 3)] ∧
    (run exEnv init exOps).sizes = [9, 0, 4, 4] := by decide +kernel

example : outputs exEnv (run exEnv init exOps)
    [.identify 9, .identify 8, .identify 17, .dofsOf (some [.name 0]), .projection (some [.var 2, .var 4]),
     .setVals [1/2, 3, -1, 5, 1/4, 7, 2, 9] (some [.var 2, .var 4]) (some 0) none false,
     .setVals [1, 1, 1, 1] (some [.var 2]) (some 0) none true,
     .getVals (some [.var 4, .var 2]) (some 0) none, .identify 17, .remove (some [.var 0])]
  = [.ok (.num 4), .ok (.num 1), .error .key, .ok (.ids [0, 1, 2, 3, 4, 5, 6, 7, 8, 9, 10, 11, 12]),
     .ok (.proj 8 17 [9, 10, 11, 12, 13, 14, 15, 16]), .ok .unit, .ok .unit,
     .ok (.rats [1/2, 3, -1, 5, 5/4, 8, 3, 10]), .error .key, .error .value] := by decide +kernel

/-- the hypotheses of the theorems are met by this history: invariant, cluster order, own storage -/
example : Inv exEnv (run exEnv init exOps) ∧ Clustered exEnv (run exEnv init exOps) ∧
    KeysUnique (run exEnv init exOps) :=
  ⟨inv_reachable exEnv (by decide) exOps,
   clustered_reachable exEnv exOps (by decide),
   keys_unique_reachable exEnv exOps (by decide)⟩

/-- a zero-size block (variable 3) sits between two non-empty ones and is never returned by identify -/
example : dofsOfIds (run exEnv init exOps) [3] = .ok [] ∧ identify (run exEnv init exOps) 9 = .ok 4 := by
  decide +kernel

/-- the subset read in the "wrong" order [λ, p(1-d)] equals the projection of the global vector -/
example :
    let s := (step exEnv (run exEnv init exOps)
      (.setVals [1, 2, 3, 4, 5, 6, 7, 8, 9, 10, 11, 12, 13, 14, 15, 16, 17] none (some 0) none false)).1
    getValsIds s [2, 4] (.ok (true, 0)) = .ok [10, 11, 12, 13, 14, 15, 16, 17] ∧
    (dofsOfIds s [2, 4]).map isort = .ok [9, 10, 11, 12, 13, 14, 15, 16] ∧
    applyProj [9, 10, 11, 12, 13, 14, 15, 16] [1, 2, 3, 4, 5, 6, 7, 8, 9, 10, 11, 12, 13, 14, 15, 16, 17]
      = [10, 11, 12, 13, 14, 15, 16, 17] := by
  decide +kernel

/-- a malformed history: `create` on a grid that is not in the md-grid (key 7) raises after having
    registered the first variable; the invariant still holds (inv_reachable), the order does not -/
example : outputs exEnv init [.create 0 [(0, 1)] (some [0, 7, 2]) none, .numDofs,
      .create 0 [(0, 1)] (some [2, 2]) none, .create 5 [(3, 1)] (some [2]) none,
      .create 5 [] (some [2]) (some [1]), .create 5 [] (some [1]) none]
    = [.error .key, .ok (.num 3), .error .assertion, .error .value, .error .value, .error .assertion] := by
  decide +kernel

/-- removing [λ, empty, p(2-d)] in one call = removing them one by one in another order -/
example :
    let s := run exEnv init exOps
    let a := (removeLoop exEnv s [2, 3, 1]).1
    let b := seqRemove exEnv s [1, 2, 3]
    (a.vars, a.numbers, a.sizes) = (b.vars, b.numbers, b.sizes) ∧ a.numbers = [(4, 0)] ∧ a.sizes = [4] := by
  decide +kernel

/-- inadmissible indices: both given / none / negative -/
example : outputs exEnv (run exEnv init exOps)
    [.getVals none (some 0) (some 0), .getVals none none none, .getVals none (some (-1)) none,
     .getVals (some [.name 9]) none none, .setVals [] (some [.var 4]) none none false,
     .setVals [1] (some [.name 9]) none (some (-2)) true]
    = [.error .value, .error .value, .error .value, .ok (.rats []), .error .value, .error .assertion] := by
  decide +kernel

/-- the 1-d grid (key 0) refined from 3 to 5 cells -/
def exEnv' : Env :=
  { exEnv with cells := fun g => if g = 0 then 5 else exEnv.cells g,
               faces := fun g => if g = 0 then 6 else exEnv.faces g,
               nodes := fun g => if g = 0 then 6 else exEnv.nodes g }

/-- sizes follow the refined grid, and the invariant holds for the new grid -/
example : (step exEnv' (run exEnv init exOps) .updateNumDofs).1.sizes = [9, 0, 6, 4] ∧
    Inv exEnv' (step exEnv' (run exEnv init exOps) .updateNumDofs).1 :=
  ⟨by decide +kernel,
   (update_num_dofs_inv exEnv exEnv' rfl rfl _ (inv_reachable exEnv (by decide) exOps)).1⟩

/-- md_variable: name 0 lives on both subdomains; name 7 nowhere; round trip through two spellings -/
example : outputs exEnv (run exEnv init exOps)
    [.mdVariable 0 none, .mdVariable 7 none, .mdVariable 0 (some [0]),
     .setVals [1, 2, 3, 4, 5, 6, 7, 8, 9, 10, 11, 12, 13] (some [.var 4, .var 1]) (some 1) (some 0) false,
     .getVals (some [.name 0]) none (some 0)]
    = [.ok (.ids [1, 4]), .error .index, .ok (.ids [4]), .ok .unit,
       .ok (.rats [1, 2, 3, 4, 5, 6, 7, 8, 9, 10, 11, 12, 13])] := by
  decide +kernel

end PorepyVerif.C05
