/-
C15 — property theorems (statements only depend on Model.lean; helper lemmas in Lemmas.lean).

Property: the Biot displacement-divergence matrices applied to a linear displacement field give
div(u) times the cell volume exactly (times the coupling coefficient), and the scalar-gradient matrix
applied to a constant pressure gives exactly minus that pressure times each face's area-weighted
normal, scaled by the coupling coefficient.

All theorems hold for every dimension `d`, every cell (list of faces of any length), every affine
field, every coupling tensor.
-/
import PorepyVerif.C15.Lemmas

namespace PorepyVerif.C15

open Finset

/-- the executable closed-cell test of the driver decides `ClosedCell` -/
theorem closedCellB_iff (d : Nat) (faces : List Face) (V : Rat) :
    closedCellB d faces V = true ↔ ClosedCell d faces V := by
  simp [closedCellB, ClosedCell, List.all_eq_true]

/-- Divergence theorem on a closed polytope cell, tensor coupling:
    `Σ_f (α n_f)·u(x_f) = V (α : A)` for `u = A x + b`. -/
theorem div_u_exact_tensor (d : Nat) (al A : Mat) (b : Vec) (faces : List Face) (V : Rat)
    (h : ClosedCell d faces V) : fluxSum d al faces A b = V * ddot d al A := by
  rw [fluxSum_moments]
  unfold ddot
  rw [sumN_eq, mul_sum]
  refine sum_congr rfl (fun i hi => ?_)
  rw [sumN_eq, mul_sum]
  refine sum_congr rfl (fun k hk => ?_)
  have hk' := mem_range.mp hk
  rw [h.1 k hk']
  have e : ∀ j ∈ range d, al i k * A i j * sumL faces (fun f => f.n k * f.x j)
      = (al i k * A i j) * (if k = j then V else 0) := by
    intro j hj; rw [h.2 k hk' j (mem_range.mp hj)]
  rw [sum_congr rfl e, ← sumN_eq, sumN_delta hk' (fun j => al i k * A i j) V]
  ring

/-- scalar coupling coefficient `a` (expanded to `a I` by `Biot.discretize`):
    `Σ_f (a n_f)·u(x_f) = a tr(A) V`. -/
theorem div_u_exact_alpha (d : Nat) (a : Rat) (A : Mat) (b : Vec) (faces : List Face) (V : Rat)
    (h : ClosedCell d faces V) : fluxSum d (iso a) faces A b = a * trace d A * V := by
  rw [div_u_exact_tensor d (iso a) A b faces V h, ddot_iso]; ring

/-- HEADLINE (first half of the property): on a closed cell, `Σ_f n_f · u(x_f) = tr(A) V` for the affine
    field `u = A x + b`: a scheme whose face displacements are exact for affine fields yields
    `div_u · u = div(u) · V` exactly. -/
theorem div_u_exact (d : Nat) (A : Mat) (b : Vec) (faces : List Face) (V : Rat)
    (h : ClosedCell d faces V) :
    sumL faces (fun f => dot d f.n (affine d A b f.x)) = trace d A * V := by
  have := div_u_exact_alpha d 1 A b faces V h
  rw [one_mul] at this
  rw [← this]
  unfold fluxSum
  refine sumL_congr (fun f _ => ?_)
  unfold dot
  refine sumN_congr (fun i hi => ?_)
  rw [matVec_iso hi]; ring

/-- The displacement divergence AS CODED (sub-cell gradients weighted with `V / #sub-cells`, double dot
    with the coupling tensor): if every sub-cell gradient equals `A` (MPSA consistency, C13), the cell
    value is `V (α : A)`. -/
theorem div_u_subcell_exact (d : Nat) (al A : Mat) (V : Rat) (Gs : List Mat) (hne : Gs ≠ [])
    (hG : ∀ G ∈ Gs, ∀ i, i < d → ∀ j, j < d → G i j = A i j) :
    divCell d al V Gs = V * ddot d al A := by
  unfold divCell
  have e : ∀ G ∈ Gs, V / (Gs.length : Rat) * ddot d al G = V / (Gs.length : Rat) * ddot d al A := by
    intro G hGm
    congr 1
    unfold ddot
    exact sumN_congr (fun i hi => sumN_congr (fun j hj => by rw [hG G hGm i hi j hj]))
  rw [sumL_congr e, sumL_const]
  have hl : (Gs.length : Rat) ≠ 0 := by
    have : Gs.length ≠ 0 := fun h0 => hne (List.length_eq_zero_iff.mp h0)
    exact_mod_cast this
  field_simp

/-- scalar coefficient: the coded cell value is `a tr(A) V`. -/
theorem div_u_subcell_exact_alpha (d : Nat) (a : Rat) (A : Mat) (V : Rat) (Gs : List Mat) (hne : Gs ≠ [])
    (hG : ∀ G ∈ Gs, ∀ i, i < d → ∀ j, j < d → G i j = A i j) :
    divCell d (iso a) V Gs = a * trace d A * V := by
  rw [div_u_subcell_exact d (iso a) A V Gs hne hG, ddot_iso]; ring

/-- coded volume form = surface form on a closed cell (what ties the sub-cell construction to `div u`). -/
theorem div_u_scheme_exact (d : Nat) (al A : Mat) (b : Vec) (faces : List Face) (V : Rat) (Gs : List Mat)
    (h : ClosedCell d faces V) (hne : Gs ≠ [])
    (hG : ∀ G ∈ Gs, ∀ i, i < d → ∀ j, j < d → G i j = A i j) :
    divCell d al V Gs = fluxSum d al faces A b := by
  rw [div_u_subcell_exact d al A V Gs hne hG, div_u_exact_tensor d al A b faces V h]

/-- HEADLINE (second half): the coded force on a face with `k ≥ 1` sub-faces from a constant pressure is
    `-p (n_fᵀ α)` … -/
theorem scalar_gradient_const (d : Nat) (n : Vec) (k : Nat) (hk : 0 < k) (al : Mat) (p : Rat) (j : Nat) :
    faceForce d n k al p j = -(p * vecMat d n al j) := by
  unfold faceForce subfaceForce
  rw [sumN_const, vecMat_scale]
  have : (k : Rat) ≠ 0 := by exact_mod_cast (Nat.pos_iff_ne_zero.mp hk)
  field_simp

/-- … which for a scalar coefficient `a` is `-a p n_f`, component by component. -/
theorem scalar_gradient_const_iso (d : Nat) (n : Vec) (k : Nat) (hk : 0 < k) (a p : Rat) (j : Nat)
    (hj : j < d) : faceForce d n k (iso a) p j = -(a * p * n j) := by
  rw [scalar_gradient_const d n k hk, vecMat_iso hj]; ring

/-- The pressure forces of a constant pressure sum to zero over a closed cell. -/
theorem scalar_gradient_closed_sum_zero (d : Nat) (faces : List Face) (V : Rat) (ks : Face → Nat)
    (h : ClosedCell d faces V) (hks : ∀ f ∈ faces, 0 < ks f) (al : Mat) (p : Rat) (j : Nat) :
    sumL faces (fun f => faceForce d f.n (ks f) al p j) = 0 := by
  rw [sumL_congr (fun f hf => scalar_gradient_const d f.n (ks f) (hks f hf) al p j)]
  rw [sumL_neg, sumL_mul_left]
  unfold vecMat
  simp only [sumN_eq]
  rw [sumL_finset]
  have e : ∀ i ∈ range d, sumL faces (fun f => f.n i * al i j) = 0 := by
    intro i hi
    have : (fun f : Face => f.n i * al i j) = (fun f : Face => al i j * f.n i) := by funext f; ring
    rw [this, sumL_mul_left, h.1 i (mem_range.mp hi)]; ring
  rw [sum_congr rfl e]; simp

/-- With the same coupling tensor and the same pressure on both sides of an interior sub-face the
    right-hand side of the local systems (`rhs_jumps`) vanishes … -/
theorem pressure_jump_zero (d : Nat) (n : Vec) (k : Nat) (al : Mat) (p : Rat) (j : Nat) :
    jumpRhs d n k al p al p j = 0 := by
  unfold jumpRhs; ring

/-- … and so does every linear response to it (`hook * igrad * rhs_jumps`, the consistency term). -/
theorem applyRows_zero (L : List (List Rat)) (m : Nat) :
    applyRows L (List.replicate m 0) = List.replicate L.length 0 := by
  unfold applyRows
  rw [List.eq_replicate_iff]
  refine ⟨by simp, ?_⟩
  intro y hy
  obtain ⟨row, _, rfl⟩ := List.mem_map.mp hy
  have : ∀ q ∈ row.zip (List.replicate m (0 : Rat)), q.1 * q.2 = 0 := by
    intro q hq
    have := (List.of_mem_zip hq).2
    rw [List.mem_replicate] at this
    rw [this.2]; ring
  rw [sumL_congr this, sumL_const]; ring

/-! ### non-vacuity: a skew triangle (2-D) and the unit cube (3-D) -/

example : ClosedCell 2 triFaces 3 := (closedCellB_iff _ _ _).mp (by decide +kernel)
example : ClosedCell 3 cubeFaces 1 := (closedCellB_iff _ _ _).mp (by decide +kernel)
/-- a wrong volume is rejected: the hypothesis is not trivially true -/
example : ¬ ClosedCell 2 triFaces 2 := fun h => absurd ((closedCellB_iff _ _ _).mpr h) (by decide +kernel)

/-- `u = [[1/2, 1/4], [-1, 2]] x + (1, -1/2)` on the triangle: `Σ n·u = (1/2 + 2)·3 = 15/2` -/
example : sumL triFaces (fun f => dot 2 f.n (affine 2 (matOf [[1/2, 1/4], [-1, 2]]) (vecOf [1, -1/2]) f.x))
    = 15 / 2 := by decide +kernel
/-- tensor coupling on the cube: `α : A = 2·1 + (1/2)·3 + (1/2)·4 + 3·5 + 1·9 = 59/2` -/
example : fluxSum 3 (matOf [[2, 1/2, 0], [1/2, 3, 0], [0, 0, 1]]) cubeFaces
    (matOf [[1, 3, 2], [4, 5, 6], [7, 8, 9]]) (vecOf [1, 2, 3]) = 59 / 2 := by decide +kernel
/-- coded sub-cell form with three exact sub-cell gradients -/
example : divCell 2 (iso (3/4)) 3 (List.replicate 3 (matOf [[1/2, 1/4], [-1, 2]])) = 3/4 * (5/2) * 3 := by
  decide +kernel
/-- face force of the skew edge with normal (3,1), two sub-faces, α = 3/4, p = 2 -/
example : listOf 2 (faceForce 2 (vecOf [3, 1]) 2 (iso (3/4)) 2) = [-9/2, -3/2] := by decide +kernel
example : sumL triFaces (fun f => faceForce 2 f.n 2 (matOf [[2, 1/2], [1/2, 3]]) 5 0) = 0 := by decide +kernel
example : listOf 2 (jumpRhs 2 (vecOf [3, 1]) 2 (iso 1) 2 (iso 2) 2) = [-3, -1] := by decide +kernel

end PorepyVerif.C15
