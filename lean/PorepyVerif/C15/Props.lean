/-
C15 — property theorems (statements only depend on Model.lean; helper lemmas in Lemmas.lean).

Property: the Biot displacement-divergence matrices applied to a linear displacement field give
div(u) times the cell volume exactly (times the coupling coefficient), and the scalar-gradient matrix
applied to a constant pressure gives exactly minus that pressure times each face's area-weighted
normal, scaled by the coupling coefficient.

All theorems hold for every dimension `d`, every cell (list of faces of any length), every affine
field, every coupling tensor.
-/
import PorepyVerif.C15.Lemmas
import PorepyVerif.C13.Props

namespace PorepyVerif.C15

open Finset

/-- the executable closed-cell test of the driver decides `ClosedCell` -/
theorem closedCellB_iff (d : Nat) (faces : List Face) (V : Rat) :
    closedCellB d faces V = true ↔ ClosedCell d faces V := by
  simp [closedCellB, ClosedCell, List.all_eq_true]

/-- Divergence theorem on a closed polytope cell, tensor coupling:
    `Σ_f (α n_f)·u(x_f) = V (α : A)` for `u = A x + b`. -/
theorem div_u_exact_tensor (d : Nat) (al A : Mat) (b : Vec) (faces : List Face) (V : Rat)
    (h : ClosedCell d faces V) : fluxSum d al faces A b = V * ddot d al A := by
  rw [fluxSum_moments]
  unfold ddot
  rw [sumN_eq, mul_sum]
  refine sum_congr rfl (fun i hi => ?_)
  rw [sumN_eq, mul_sum]
  refine sum_congr rfl (fun k hk => ?_)
  have hk' := mem_range.mp hk
  rw [h.1 k hk']
  have e : ∀ j ∈ range d, al i k * A i j * sumL faces (fun f => f.n k * f.x j)
      = (al i k * A i j) * (if k = j then V else 0) := by
    intro j hj; rw [h.2 k hk' j (mem_range.mp hj)]
  rw [sum_congr rfl e, ← sumN_eq, sumN_delta hk' (fun j => al i k * A i j) V]
  ring

/-- scalar coupling coefficient `a` (expanded to `a I` by `Biot.discretize`):
    `Σ_f (a n_f)·u(x_f) = a tr(A) V`. -/
theorem div_u_exact_alpha (d : Nat) (a : Rat) (A : Mat) (b : Vec) (faces : List Face) (V : Rat)
    (h : ClosedCell d faces V) : fluxSum d (iso a) faces A b = a * trace d A * V := by
  rw [div_u_exact_tensor d (iso a) A b faces V h, ddot_iso]; ring

/-- HEADLINE (first half of the property): on a closed cell, `Σ_f n_f · u(x_f) = tr(A) V` for the affine
    field `u = A x + b`: a scheme whose face displacements are exact for affine fields yields
    `div_u · u = div(u) · V` exactly. -/
theorem div_u_exact (d : Nat) (A : Mat) (b : Vec) (faces : List Face) (V : Rat)
    (h : ClosedCell d faces V) :
    sumL faces (fun f => dot d f.n (affine d A b f.x)) = trace d A * V := by
  have := div_u_exact_alpha d 1 A b faces V h
  rw [one_mul] at this
  rw [← this]
  unfold fluxSum
  refine sumL_congr (fun f _ => ?_)
  unfold dot
  refine sumN_congr (fun i hi => ?_)
  rw [matVec_iso hi]; ring

/-- The displacement divergence AS CODED (sub-cell gradients weighted with `V / #sub-cells`, double dot
    with the coupling tensor): if every sub-cell gradient equals `A` (MPSA consistency, C13), the cell
    value is `V (α : A)`. -/
theorem div_u_subcell_exact (d : Nat) (al A : Mat) (V : Rat) (Gs : List Mat) (hne : Gs ≠ [])
    (hG : ∀ G ∈ Gs, ∀ i, i < d → ∀ j, j < d → G i j = A i j) :
    divCell d al V Gs = V * ddot d al A := by
  unfold divCell
  have e : ∀ G ∈ Gs, V / (Gs.length : Rat) * ddot d al G = V / (Gs.length : Rat) * ddot d al A := by
    intro G hGm
    congr 1
    unfold ddot
    exact sumN_congr (fun i hi => sumN_congr (fun j hj => by rw [hG G hGm i hi j hj]))
  rw [sumL_congr e, sumL_const]
  have hl : (Gs.length : Rat) ≠ 0 := by
    have : Gs.length ≠ 0 := fun h0 => hne (List.length_eq_zero_iff.mp h0)
    exact_mod_cast this
  field_simp

/-- scalar coefficient: the coded cell value is `a tr(A) V`. -/
theorem div_u_subcell_exact_alpha (d : Nat) (a : Rat) (A : Mat) (V : Rat) (Gs : List Mat) (hne : Gs ≠ [])
    (hG : ∀ G ∈ Gs, ∀ i, i < d → ∀ j, j < d → G i j = A i j) :
    divCell d (iso a) V Gs = a * trace d A * V := by
  rw [div_u_subcell_exact d (iso a) A V Gs hne hG, ddot_iso]; ring

/-- coded volume form = surface form on a closed cell (what ties the sub-cell construction to `div u`). -/
theorem div_u_scheme_exact (d : Nat) (al A : Mat) (b : Vec) (faces : List Face) (V : Rat) (Gs : List Mat)
    (h : ClosedCell d faces V) (hne : Gs ≠ [])
    (hG : ∀ G ∈ Gs, ∀ i, i < d → ∀ j, j < d → G i j = A i j) :
    divCell d al V Gs = fluxSum d al faces A b := by
  rw [div_u_subcell_exact d al A V Gs hne hG, div_u_exact_tensor d al A b faces V h]

/-- HEADLINE (second half): the coded force on a face with `k ≥ 1` sub-faces from a constant pressure is
    `-p (n_fᵀ α)` … -/
theorem scalar_gradient_const (d : Nat) (n : Vec) (k : Nat) (hk : 0 < k) (al : Mat) (p : Rat) (j : Nat) :
    faceForce d n k al p j = -(p * vecMat d n al j) := by
  unfold faceForce subfaceForce
  rw [sumN_const, vecMat_scale]
  have : (k : Rat) ≠ 0 := by exact_mod_cast (Nat.pos_iff_ne_zero.mp hk)
  field_simp

/-- … which for a scalar coefficient `a` is `-a p n_f`, component by component. -/
theorem scalar_gradient_const_iso (d : Nat) (n : Vec) (k : Nat) (hk : 0 < k) (a p : Rat) (j : Nat)
    (hj : j < d) : faceForce d n k (iso a) p j = -(a * p * n j) := by
  rw [scalar_gradient_const d n k hk, vecMat_iso hj]; ring

/-- The pressure forces of a constant pressure sum to zero over a closed cell. -/
theorem scalar_gradient_closed_sum_zero (d : Nat) (faces : List Face) (V : Rat) (ks : Face → Nat)
    (h : ClosedCell d faces V) (hks : ∀ f ∈ faces, 0 < ks f) (al : Mat) (p : Rat) (j : Nat) :
    sumL faces (fun f => faceForce d f.n (ks f) al p j) = 0 := by
  rw [sumL_congr (fun f hf => scalar_gradient_const d f.n (ks f) (hks f hf) al p j)]
  rw [sumL_neg, sumL_mul_left]
  unfold vecMat
  simp only [sumN_eq]
  rw [sumL_finset]
  have e : ∀ i ∈ range d, sumL faces (fun f => f.n i * al i j) = 0 := by
    intro i hi
    have : (fun f : Face => f.n i * al i j) = (fun f : Face => al i j * f.n i) := by funext f; ring
    rw [this, sumL_mul_left, h.1 i (mem_range.mp hi)]; ring
  rw [sum_congr rfl e]; simp

/-- With the same coupling tensor and the same pressure on both sides of an interior sub-face the
    right-hand side of the local systems (`rhs_jumps`) vanishes … -/
theorem pressure_jump_zero (d : Nat) (n : Vec) (k : Nat) (al : Mat) (p : Rat) (j : Nat) :
    jumpRhs d n k al p al p j = 0 := by
  unfold jumpRhs; ring

/-- … and so does every linear response to it (`hook * igrad * rhs_jumps`, the consistency term). -/
theorem applyRows_zero (L : List (List Rat)) (m : Nat) :
    applyRows L (List.replicate m 0) = List.replicate L.length 0 := by
  unfold applyRows
  rw [List.eq_replicate_iff]
  refine ⟨by simp, ?_⟩
  intro y hy
  obtain ⟨row, _, rfl⟩ := List.mem_map.mp hy
  have : ∀ q ∈ row.zip (List.replicate m (0 : Rat)), q.1 * q.2 = 0 := by
    intro q hq
    have := (List.of_mem_zip hq).2
    rw [List.mem_replicate] at this
    rw [this.2]; ring
  rw [sumL_congr this, sumL_const]; ring

/-! ### non-vacuity: a skew triangle (2-D) and the unit cube (3-D) -/

example : ClosedCell 2 triFaces 3 := (closedCellB_iff _ _ _).mp (by decide +kernel)
example : ClosedCell 3 cubeFaces 1 := (closedCellB_iff _ _ _).mp (by decide +kernel)
/-- a wrong volume is rejected: the hypothesis is not trivially true -/
example : ¬ ClosedCell 2 triFaces 2 := fun h => absurd ((closedCellB_iff _ _ _).mpr h) (by decide +kernel)

/-- `u = [[1/2, 1/4], [-1, 2]] x + (1, -1/2)` on the triangle: `Σ n·u = (1/2 + 2)·3 = 15/2` -/
example : sumL triFaces (fun f => dot 2 f.n (affine 2 (matOf [[1/2, 1/4], [-1, 2]]) (vecOf [1, -1/2]) f.x))
    = 15 / 2 := by decide +kernel
/-- tensor coupling on the cube: `α : A = 2·1 + (1/2)·3 + (1/2)·4 + 3·5 + 1·9 = 59/2` -/
example : fluxSum 3 (matOf [[2, 1/2, 0], [1/2, 3, 0], [0, 0, 1]]) cubeFaces
    (matOf [[1, 3, 2], [4, 5, 6], [7, 8, 9]]) (vecOf [1, 2, 3]) = 59 / 2 := by decide +kernel
/-- coded sub-cell form with three exact sub-cell gradients -/
example : divCell 2 (iso (3/4)) 3 (List.replicate 3 (matOf [[1/2, 1/4], [-1, 2]])) = 3/4 * (5/2) * 3 := by
  decide +kernel
/-- face force of the skew edge with normal (3,1), two sub-faces, α = 3/4, p = 2 -/
example : listOf 2 (faceForce 2 (vecOf [3, 1]) 2 (iso (3/4)) 2) = [-9/2, -3/2] := by decide +kernel
example : sumL triFaces (fun f => faceForce 2 f.n 2 (matOf [[2, 1/2], [1/2, 3]]) 5 0) = 0 := by decide +kernel
example : listOf 2 (jumpRhs 2 (vecOf [3, 1]) 2 (iso 1) 2 (iso 2) 2) = [-3, -1] := by decide +kernel

/-! ## Assembled 2-D statements: the hypothesis "sub-cell gradients are exact" is discharged by C13's certificates -/
namespace Biot2
open PorepyVerif.C13 PorepyVerif.C13.GridS

variable (G : C13.GridS)

/-- with Dirichlet conditions on all boundary faces `_eliminate_ncasym` never fires -/
theorem elimAt_false_of_allDir (h : allDir G = true) (v : Nat) : G.elimAt v = false := by
  unfold GridS.elimAt
  have hnil : (G.facesOf v).filter G.isNeu = [] := by
    rw [List.filter_eq_nil_iff]
    intro f hf
    have hlt := ((G.mem_facesOf v f).mp hf).1
    have := (List.all_eq_true.mp h) f (List.mem_range.mpr hlt)
    simpa using this
  rw [hnil]; simp

/-- **`biot2d_div_u_exact`.**  For EVERY well-formed 2-D grid all of whose interaction regions are certified
    nonsingular and whose boundary faces are all Dirichlet, the displacement divergence assembled as biot.py does
    (sub-cell gradients of the MPSA local solves, weight `V_c / #nodes`, double dot with the cell's coupling tensor)
    applied to the data of `u = A x + b` equals `V_c (α_c : A)` in every cell — exactness of the sub-cell gradients
    is a theorem here (`C13.GridS.node_gradient_exact`), not a hypothesis.  Cell-wise varying `α` is allowed. -/
theorem biot2d_div_u_exact (al : Nat → C13.Mat 2) (A : C13.Mat 2) (b : C13.Vec 2) (Ls : List C11.Mat)
    (hwf : G.WF) (hcert : G.certs = some Ls) (hdir : allDir G = true) (c : Nat) :
    divU G al (G.nodeSol Ls (G.affineU A b) (G.affineBc A b)) c = cellVol G c * ddot2 (al c) A := by
  unfold divU cellVol
  rw [sumList_const _ _ (G.volShare.getD c 0 * ddot2 (al c) A)]
  · ring
  · intro v hv
    have hv' := List.mem_filter.mp hv
    have hvn : v < G.numNodes := List.mem_range.mp hv'.1
    have hc : c ∈ G.cellsOf v := by simpa using hv'.2
    rw [G.node_gradient_exact A b Ls hwf hcert v hvn (elimAt_false_of_allDir G hdir v) _ (G.loc_lt v c hc)]

/-- the property's wording for a scalar coefficient: `div_u · u = α tr(A) V` -/
theorem biot2d_div_u_exact_alpha (al : Nat → C13.Mat 2) (a : Rat) (A : C13.Mat 2) (b : C13.Vec 2)
    (Ls : List C11.Mat) (hwf : G.WF) (hcert : G.certs = some Ls) (hdir : allDir G = true) (c : Nat)
    (hal : al c = iso2 a) :
    divU G al (G.nodeSol Ls (G.affineU A b) (G.affineBc A b)) c = a * C13.tr A * cellVol G c := by
  rw [biot2d_div_u_exact G al A b Ls hwf hcert hdir c, hal]
  unfold ddot2 iso2 C13.tr
  rw [sumFin_two]
  simp
  ring

theorem pRow_zero (al : Nat → C13.Mat 2) (p : Nat → Rat) (al0 : C13.Mat 2) (p0 : Rat)
    (hal : ∀ c, al c = al0) (hp : ∀ c, p c = p0) (f : Nat) (hn : G.isNeu f = false) :
    ∀ x ∈ pRow G al p f, x = 0 := by
  intro x hx
  unfold pRow at hx
  split at hx
  · rename_i c s heq
    split at hx
    · simp at hx; rcases hx with rfl | rfl <;> rfl
    · rename_i hd
      simp [GridS.isNeu, GridS.isBoundary, heq, hd] at hn
  · rename_i c1 s1 c2 s2 heq
    have e : ∀ j, nAlphaP G al p f c1 j - nAlphaP G al p f c2 j = 0 := by
      intro j; unfold nAlphaP; rw [hal c1, hal c2, hp c1, hp c2]; ring
    simp [e] at hx
    exact hx
  · simp at hx

theorem dot_zero_right (r g : List Rat) (h : ∀ x ∈ g, x = 0) : C11.dot r g = 0 := by
  induction r generalizing g with
  | nil => simp [C11.dot]
  | cons a r ih =>
    cases g with
    | nil => simp [C11.dot]
    | cons y g =>
      simp only [C11.dot]
      rw [h y (List.mem_cons_self ..), ih g (fun x hx => h x (List.mem_cons_of_mem _ hx))]
      ring

theorem getD_zero_of_all (y : List Rat) (h : ∀ x ∈ y, x = 0) (i : Nat) : y.getD i 0 = 0 := by
  rw [List.getD_eq_getElem?_getD]
  cases hi : y[i]? with
  | none => rfl
  | some x => exact h x (List.mem_of_getElem? hi)

/-- constant pressure, uniform coupling tensor, no Neumann face: the pressure right-hand side of every local
    system vanishes, hence so do the induced sub-cell gradients (for ANY matrix in place of the inverse) -/
theorem pSol_zero (Ls : List C11.Mat) (al : Nat → C13.Mat 2) (p : Nat → Rat) (al0 : C13.Mat 2) (p0 : Rat)
    (hal : ∀ c, al c = al0) (hp : ∀ c, p c = p0) (hdir : allDir G = true) (v k : Nat) :
    (pSol G Ls al p v).Gs k = fun _ _ => 0 := by
  funext i j
  show unflat (C11.mulVec (Ls.getD v []) (pRhs G al p v)) k i j = 0
  unfold unflat
  apply getD_zero_of_all
  intro x hx
  unfold C11.mulVec at hx
  obtain ⟨r, _, rfl⟩ := List.mem_map.mp hx
  apply dot_zero_right
  intro y hy
  unfold pRhs at hy
  obtain ⟨f, hf, hyf⟩ := List.mem_flatMap.mp hy
  have hlt := ((G.mem_facesOf v f).mp hf).1
  have hn : G.isNeu f = false := by
    have := (List.all_eq_true.mp hdir) f (List.mem_range.mpr hlt)
    simpa using this
  exact pRow_zero G al p al0 p0 hal hp f hn y hyf

theorem subTraction_zero (R : Region 2) (Gs : Nat → C13.Mat 2) (hG : ∀ k, Gs k = fun _ _ => 0)
    (i : Nat) (n : C13.Vec 2) (e : Bool) (a : Fin 2) : subTraction R Gs i n e a = 0 := by
  unfold subTraction
  apply mulVec_zero_mat
  intro x y
  unfold subStress avgAsym
  have hc : csym R.lam R.mu (Gs i) x y = 0 := by
    rw [hG i]; unfold csym C13.tr; rw [sumFin_zero]; split <;> ring
  have hs : sumTo (fun k => R.vol k * casym R.mu (Gs k) x y) R.m = 0 := by
    rw [sumTo_congr (g := fun _ => 0) R.m (fun k _ => by rw [hG k]; unfold casym; split <;> ring), sumTo_zero]
  rw [hc, hs]
  split <;> simp

/-- **`biot2d_grad_p_const`.**  For every 2-D grid without Neumann faces, a coupling tensor `α` that is the same
    in all cells and a constant pressure `p`, the assembled scalar gradient (Hooke's law of the pressure-induced
    local solves plus the first-side pressure force, summed over the sub-faces of the face) gives exactly
    `-p (n_fᵀ α)` on every face with at least one node. -/
theorem biot2d_grad_p_const (Ls : List C11.Mat) (al : Nat → C13.Mat 2) (p : Nat → Rat) (al0 : C13.Mat 2) (p0 : Rat)
    (hal : ∀ c, al c = al0) (hp : ∀ c, p c = p0) (hdir : allDir G = true) (f : Nat) (hne : G.fnodes f ≠ [])
    (a : Fin 2) :
    gradP G al p (pSol G Ls al p) f a = -(p0 * (G.fnAt f 0 * al0 0 a + G.fnAt f 1 * al0 1 a)) := by
  have hN : G.nN f ≠ 0 := by
    unfold GridS.nN
    intro h0
    have : (G.fnodes f).length = 0 := by exact_mod_cast h0
    exact hne (List.length_eq_zero_iff.mp this)
  unfold gradP
  rw [sumList_const _ _ (-(nAlphaP G al p f (G.firstCell f) a))]
  · unfold nAlphaP GridS.subNormal
    rw [hal, hp]
    show G.nN f * _ = _
    field_simp
  · intro v _
    unfold GridS.subTr
    rw [subTraction_zero _ _ (pSol_zero G Ls al p al0 p0 hal hp hdir v)]
    ring

/-- scalar coefficient: `-α p n_f`, component by component -/
theorem biot2d_grad_p_const_iso (Ls : List C11.Mat) (al : Nat → C13.Mat 2) (p : Nat → Rat) (a0 p0 : Rat)
    (hal : ∀ c, al c = iso2 a0) (hp : ∀ c, p c = p0) (hdir : allDir G = true) (f : Nat) (hne : G.fnodes f ≠ [])
    (a : Fin 2) :
    gradP G al p (pSol G Ls al p) f a = -(a0 * p0 * G.fnAt f a) := by
  rw [biot2d_grad_p_const G Ls al p (iso2 a0) p0 hal hp hdir f hne a]
  rcases fin2_cases a with rfl | rfl <;> simp [iso2] <;> ring

/-- … and the consistency (stabilisation) term annihilates constant pressures -/
theorem biot2d_stab_const (Ls : List C11.Mat) (al : Nat → C13.Mat 2) (p : Nat → Rat) (al0 : C13.Mat 2) (p0 : Rat)
    (hal : ∀ c, al c = al0) (hp : ∀ c, p c = p0) (hdir : allDir G = true) (c : Nat) :
    stab G al (pSol G Ls al p) c = 0 := by
  unfold stab divU
  rw [sumList_const _ _ 0]
  · ring
  · intro v _
    rw [pSol_zero G Ls al p al0 p0 hal hp hdir v]
    unfold ddot2; ring

/-! non-vacuity: C13's two-square grid with all boundary faces Dirichlet is well-formed, certified, all-Dirichlet;
    the assembled terms are what the theorems say (cell volume 1, α = diag-dominant tensor, resp. 3/4 I) -/
def exGrid : C13.GridS :=
  { nodes := [[0, 0], [1, 0], [2, 0], [0, 1], [1, 1], [2, 1]],
    faceNodes := [[0, 3], [1, 4], [2, 5], [0, 1], [1, 2], [3, 4], [4, 5]],
    faceCells := [[(0, -1)], [(0, 1), (1, -1)], [(1, 1)], [(0, -1)], [(1, -1)], [(0, 1)], [(1, 1)]],
    cellCenters := [[1/2, 1/2], [3/2, 1/2]],
    faceCenters := [[0, 1/2], [1, 1/2], [2, 1/2], [1/2, 0], [3/2, 0], [1/2, 1], [3/2, 1]],
    faceNormals := [[1, 0], [1, 0], [1, 0], [0, 1], [0, 1], [0, 1], [0, 1]],
    volShare := [1/4, 1/4],
    isDir := [true, false, true, true, true, true, true],
    eta := 0, lam := 3/2, mu := 3/4 }

def exAl : Nat → C13.Mat 2 := fun c => if c = 0 then matOfLists [[2, 1/2], [1/2, 3]] else iso2 (3/4)
def exA2 : C13.Mat 2 := matOfLists [[1/2, 1/4], [-1, 2]]
def exb2 : C13.Vec 2 := vecOfList [1, -1/2]

example : exGrid.WF ∧ allDir exGrid = true ∧ exGrid.certs.isSome = true ∧ cellVol exGrid 0 = 1 ∧
    exGrid.certs.map (fun Ls => [0, 1].map (divU exGrid exAl (exGrid.nodeSol Ls (exGrid.affineU exA2 exb2) (exGrid.affineBc exA2 exb2))))
      = some [2 * (1/2) + (1/2) * (1/4) + (1/2) * (-1) + 3 * 2, 3/4 * (5/2)] ∧
    exGrid.certs.map (fun Ls => vecToList (gradP exGrid (fun _ => iso2 (3/4)) (fun _ => 2) (pSol exGrid Ls (fun _ => iso2 (3/4)) (fun _ => 2)) 1))
      = some [-(3/2), 0] := by
  decide +kernel

end Biot2

end PorepyVerif.C15
