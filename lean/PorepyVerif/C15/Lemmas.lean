/-
C15 — helper lemmas (property theorems are in Props.lean).
-/
import PorepyVerif.C15.Model
import Mathlib.Algebra.BigOperators.Ring.Finset
import Mathlib.Algebra.Field.Rat
import Mathlib.Tactic.Ring
import Mathlib.Tactic.FieldSimp

namespace PorepyVerif.C15

open Finset

/-! ### `sumN` / `sumL` as big operators -/

theorem sumN_eq (n : Nat) (f : Nat → Rat) : sumN n f = ∑ i ∈ range n, f i := by
  induction n with
  | zero => simp [sumN]
  | succ n ih => rw [sumN, ih, sum_range_succ]

theorem sumN_congr {n : Nat} {f g : Nat → Rat} (h : ∀ i, i < n → f i = g i) : sumN n f = sumN n g := by
  rw [sumN_eq, sumN_eq]
  exact sum_congr rfl (fun i hi => h i (mem_range.mp hi))

theorem sumN_const (n : Nat) (c : Rat) : sumN n (fun _ => c) = (n : Rat) * c := by
  rw [sumN_eq, sum_const, card_range, nsmul_eq_mul]

theorem sumN_zero (n : Nat) : sumN n (fun _ => (0 : Rat)) = 0 := by
  rw [sumN_const]; ring

theorem sumN_delta {n i : Nat} (hi : i < n) (g : Nat → Rat) (V : Rat) :
    sumN n (fun j => g j * (if i = j then V else 0)) = g i * V := by
  rw [sumN_eq]
  have : ∀ j ∈ range n, g j * (if i = j then V else 0) = if i = j then g j * V else 0 := by
    intro j _; split <;> simp
  rw [sum_congr rfl this, sum_ite_eq]
  simp [hi]

theorem sumL_add {α : Type} (l : List α) (g h : α → Rat) :
    sumL l (fun a => g a + h a) = sumL l g + sumL l h := by
  induction l with
  | nil => simp [sumL]
  | cons a l ih => simp only [sumL, ih]; ring

theorem sumL_mul_left {α : Type} (l : List α) (c : Rat) (g : α → Rat) :
    sumL l (fun a => c * g a) = c * sumL l g := by
  induction l with
  | nil => simp [sumL]
  | cons a l ih => simp only [sumL, ih]; ring

theorem sumL_neg {α : Type} (l : List α) (g : α → Rat) : sumL l (fun a => -g a) = -sumL l g := by
  induction l with
  | nil => simp [sumL]
  | cons a l ih => simp only [sumL, ih]; ring

theorem sumL_const {α : Type} (l : List α) (c : Rat) : sumL l (fun _ => c) = (l.length : Rat) * c := by
  induction l with
  | nil => simp [sumL]
  | cons a l ih => simp only [sumL, ih, List.length_cons]; push_cast; ring

theorem sumL_congr {α : Type} {l : List α} {g h : α → Rat} (e : ∀ a ∈ l, g a = h a) : sumL l g = sumL l h := by
  induction l with
  | nil => rfl
  | cons a l ih =>
    simp only [sumL]
    rw [e a (List.mem_cons_self), ih (fun x hx => e x (List.mem_cons_of_mem _ hx))]

theorem sumL_finset {α : Type} (l : List α) (s : Finset Nat) (F : α → Nat → Rat) :
    sumL l (fun a => ∑ i ∈ s, F a i) = ∑ i ∈ s, sumL l (fun a => F a i) := by
  induction l with
  | nil => simp [sumL]
  | cons a l ih => simp only [sumL, ih, sum_add_distrib]

/-! ### the bilinear expansion behind the divergence theorem -/

/-- one face: `(α n)·(A x + b) = Σ_i Σ_k ( Σ_j α_ik A_ij (n_k x_j) + α_ik b_i n_k )` -/
theorem face_term_expand (d : Nat) (al A : Mat) (b : Vec) (f : Face) :
    dot d (matVec d al f.n) (affine d A b f.x) =
      ∑ i ∈ range d, ∑ k ∈ range d,
        ((∑ j ∈ range d, al i k * A i j * (f.n k * f.x j)) + al i k * b i * f.n k) := by
  simp only [dot, matVec, affine, sumN_eq]
  refine sum_congr rfl (fun i _ => ?_)
  rw [sum_mul]
  refine sum_congr rfl (fun k _ => ?_)
  rw [mul_add, mul_sum]
  congr 1
  · exact sum_congr rfl (fun j _ => by ring)
  · ring

/-- all faces: the surface sum only depends on the moments `Σ_f n_f x_fᵀ` and `Σ_f n_f` -/
theorem fluxSum_moments (d : Nat) (al A : Mat) (b : Vec) (faces : List Face) :
    fluxSum d al faces A b =
      ∑ i ∈ range d, ∑ k ∈ range d,
        ((∑ j ∈ range d, al i k * A i j * sumL faces (fun f => f.n k * f.x j))
          + al i k * b i * sumL faces (fun f => f.n k)) := by
  unfold fluxSum
  rw [sumL_congr (fun f _ => face_term_expand d al A b f), sumL_finset]
  refine sum_congr rfl (fun i _ => ?_)
  rw [sumL_finset]
  refine sum_congr rfl (fun k _ => ?_)
  rw [sumL_add, sumL_finset, sumL_mul_left]
  congr 1
  exact sum_congr rfl (fun j _ => sumL_mul_left _ _ _)

theorem ddot_iso (d : Nat) (a : Rat) (A : Mat) : ddot d (iso a) A = a * trace d A := by
  unfold ddot trace iso
  rw [sumN_eq, sumN_eq, mul_sum]
  refine sum_congr rfl (fun i hi => ?_)
  have h := sumN_delta (mem_range.mp hi) (fun j => A i j) a
  have e : (fun j => (if i = j then a else 0) * A i j) = (fun j => A i j * (if i = j then a else 0)) := by
    funext j; ring
  rw [e, h]; ring

theorem matVec_iso {d i : Nat} (hi : i < d) (a : Rat) (n : Vec) : matVec d (iso a) n i = a * n i := by
  unfold matVec iso
  have e : (fun j => (if i = j then a else 0) * n j) = (fun j => n j * (if i = j then a else 0)) := by
    funext j; ring
  rw [e, sumN_delta hi]; ring

theorem vecMat_iso {d j : Nat} (hj : j < d) (a : Rat) (n : Vec) : vecMat d n (iso a) j = a * n j := by
  unfold vecMat iso
  have e : (fun i => n i * (if i = j then a else 0)) = (fun i => n i * (if j = i then a else 0)) := by
    funext i; by_cases h : i = j
    · subst h; simp
    · have : ¬ j = i := fun e => h e.symm
      simp [h, this]
  rw [e, sumN_delta hj]; ring

theorem vecMat_scale (d : Nat) (n : Vec) (c : Rat) (al : Mat) (j : Nat) :
    vecMat d (fun i => n i / c) al j = vecMat d n al j / c := by
  unfold vecMat
  rw [sumN_eq, sumN_eq, div_eq_mul_inv, sum_mul]
  exact sum_congr rfl (fun i _ => by ring)

/-! ### concrete cells for the non-vacuity examples in Props.lean -/

/-- triangle (0,0),(2,0),(1,3): outward edge normals, edge midpoints, area 3 -/
def triFaces : List Face :=
  [⟨vecOf [0, -2], vecOf [1, 0]⟩, ⟨vecOf [3, 1], vecOf [3/2, 3/2]⟩, ⟨vecOf [-3, 1], vecOf [1/2, 3/2]⟩]

def cubeFaces : List Face :=
  [⟨vecOf [-1, 0, 0], vecOf [0, 1/2, 1/2]⟩, ⟨vecOf [1, 0, 0], vecOf [1, 1/2, 1/2]⟩,
   ⟨vecOf [0, -1, 0], vecOf [1/2, 0, 1/2]⟩, ⟨vecOf [0, 1, 0], vecOf [1/2, 1, 1/2]⟩,
   ⟨vecOf [0, 0, -1], vecOf [1/2, 1/2, 0]⟩, ⟨vecOf [0, 0, 1], vecOf [1/2, 1/2, 1]⟩]

end PorepyVerif.C15
