/- C15 line-protocol driver: `lake env lean --run PorepyVerif/C15/Driver.lean`

op "grid": exact rational face data of a whole grid (outward normals, centres, volumes per cell; normal,
node count and coupling tensors per face), an affine field and a constant pressure.  Answers, per cell,
the closed-cell test, the surface sum `Σ_f (α n_f)·u(x_f)`, `V (α : A)` and the coded sub-cell sum with
exact gradients; per face, the coded force of the constant pressure and the pressure-jump right-hand side. -/
import PorepyVerif.Common.Wire
import PorepyVerif.C15.Model
open Lean PV PorepyVerif.C15

def cellOut (d : Nat) (A : Mat) (b : Vec) (c : Json) : R Json := do
  let V ← fRat c "V"
  let al := matOf (← fRatss c "alpha")
  let ns ← fRatss c "n"
  let xs ← fRatss c "x"
  let ncn ← fNat c "ncn"
  if ns.length != xs.length then throw "n/x length mismatch" else
  if ns.any (·.length != d) || xs.any (·.length != d) then throw "component count mismatch" else
  let faces : List Face := (ns.zip xs).map (fun q => ⟨vecOf q.1, vecOf q.2⟩)
  pure (obj [("closed", Json.bool (closedCellB d faces V)),
             ("flux", ofRat (fluxSum d al faces A b)),
             ("div", ofRat (V * ddot d al A)),
             ("coded", ofRat (divCell d al V (List.replicate ncn A)))])

def faceOut (d : Nat) (p : Rat) (f : Json) : R Json := do
  let nl ← fRats f "n"
  if nl.length != d then throw "component count mismatch" else
  let n := vecOf nl
  let k ← fNat f "k"
  let al := matOf (← fRatss f "alpha")
  -- interior faces: coupling tensors of the cell the normal points out of (+) and into (-)
  let alP ← jOpt (jList (jList jRat)) (fieldD f "alphaP" Json.null)
  let alM ← jOpt (jList (jList jRat)) (fieldD f "alphaM" Json.null)
  let jump := match alP, alM with
    | some a, some c => listOf d (jumpRhs d n k (matOf a) p (matOf c) p)
    | _, _ => []
  pure (obj [("force", ofRats (listOf d (faceForce d n k al p))), ("jump", ofRats jump)])

def step (j : Json) : R Json := do
  let op ← fStr j "op"
  match op with
  | "grid" =>
    let d ← fNat j "d"
    let A := matOf (← fRatss j "A")
    let b := vecOf (← fRats j "b")
    let p ← fRat j "p"
    let cells ← field j "cells" >>= jList (cellOut d A b)
    let faces ← field j "faces" >>= jList (faceOut d p)
    pure (obj [("cells", Json.arr cells.toArray), ("faces", Json.arr faces.toArray)])
  | _ => throw s!"unknown op {op}"

def main : IO Unit := runPure step
