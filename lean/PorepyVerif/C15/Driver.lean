/- C15 line-protocol driver: `lake env lean --run PorepyVerif/C15/Driver.lean`

op "grid": exact rational face data of a whole grid (outward normals, centres, volumes per cell; normal,
node count and coupling tensors per face), an affine field and a constant pressure.  Answers, per cell,
the closed-cell test, the surface sum `Σ_f (α n_f)·u(x_f)`, `V (α : A)` and the coded sub-cell sum with
exact gradients; per face, the coded force of the constant pressure and the pressure-jump right-hand side. -/
import PorepyVerif.Common.Wire
import PorepyVerif.C15.Model
open Lean PV PorepyVerif.C15

def cellOut (d : Nat) (A : Mat) (b : Vec) (c : Json) : R Json := do
  let V ← fRat c "V"
  let al := matOf (← fRatss c "alpha")
  let ns ← fRatss c "n"
  let xs ← fRatss c "x"
  let ncn ← fNat c "ncn"
  if ns.length != xs.length then throw "n/x length mismatch" else
  if ns.any (·.length != d) || xs.any (·.length != d) then throw "component count mismatch" else
  let faces : List Face := (ns.zip xs).map (fun q => ⟨vecOf q.1, vecOf q.2⟩)
  pure (obj [("closed", Json.bool (closedCellB d faces V)),
             ("flux", ofRat (fluxSum d al faces A b)),
             ("div", ofRat (V * ddot d al A)),
             ("coded", ofRat (divCell d al V (List.replicate ncn A)))])

def faceOut (d : Nat) (p : Rat) (f : Json) : R Json := do
  let nl ← fRats f "n"
  if nl.length != d then throw "component count mismatch" else
  let n := vecOf nl
  let k ← fNat f "k"
  let al := matOf (← fRatss f "alpha")
  -- interior faces: coupling tensors of the cell the normal points out of (+) and into (-)
  let alP ← jOpt (jList (jList jRat)) (fieldD f "alphaP" Json.null)
  let alM ← jOpt (jList (jList jRat)) (fieldD f "alphaM" Json.null)
  let jump := match alP, alM with
    | some a, some c => listOf d (jumpRhs d n k (matOf a) p (matOf c) p)
    | _, _ => []
  pure (obj [("force", ofRats (listOf d (faceForce d n k al p))), ("jump", ofRats jump)])

def parseFC (j : Json) : R (Nat × Rat) := do
  match j with
  | .arr a =>
    if a.size != 2 then throw "face-cell pair expected" else
    pure ((← jNat a[0]!), (← jRat a[1]!))
  | _ => throw "face-cell pair expected"

/-- op "biot2d": a whole 2-D grid in the format of C13's op "grid" plus one coupling tensor per cell.  Answers the
    decidable hypotheses of `biot2d_div_u_exact` / `biot2d_grad_p_const` (wf, alldir, certified) and, column by column,
    displacement_divergence, boundary_displacement_divergence, scalar_gradient and mpsa_consistency assembled from the
    certified MPSA local solves of `C13.GridS`. -/
def handleBiot2d (j : Json) : R Json := do
  let G : PorepyVerif.C13.GridS :=
    { nodes := (← fRatss j "nodes"), faceNodes := (← fNatss j "face_nodes"),
      faceCells := (← (field j "face_cells" >>= jList (jList parseFC))),
      cellCenters := (← fRatss j "cell_centers"), faceCenters := (← fRatss j "face_centers"),
      faceNormals := (← fRatss j "face_normals"), volShare := (← fRats j "vol_share"),
      isDir := (← (field j "is_dir" >>= jList jBool)), eta := (← fRat j "eta"),
      lam := (← fRat j "lam"), mu := (← fRat j "mu") }
  let als ← field j "alpha" >>= jList (jList (jList jRat))
  let al : Nat → PorepyVerif.C13.Mat 2 := fun c => PorepyVerif.C13.matOfLists (als.getD c [])
  let wf := decide G.WF
  let head := [("wf", Json.bool wf), ("alldir", Json.bool (Biot2.allDir G)),
               ("vol", ofRats ((List.range G.numCells).map (Biot2.cellVol G)))]
  match G.certs with
  | none => pure (obj (head ++ [("certified", Json.bool false)]))
  | some Ls =>
    let (dc, df, gp, st) := Biot2.columns G Ls al
    pure (obj (head ++ [("certified", Json.bool true), ("div_cols", ofList ofRats dc), ("bdiv_cols", ofList ofRats df),
                        ("gradp_cols", ofList (ofList ofRats) gp), ("stab_cols", ofList ofRats st)]))

def step (j : Json) : R Json := do
  let op ← fStr j "op"
  match op with
  | "biot2d" => handleBiot2d j
  | "grid" =>
    let d ← fNat j "d"
    let A := matOf (← fRatss j "A")
    let b := vecOf (← fRats j "b")
    let p ← fRat j "p"
    let cells ← field j "cells" >>= jList (cellOut d A b)
    let faces ← field j "faces" >>= jList (faceOut d p)
    pure (obj [("cells", Json.arr cells.toArray), ("faces", Json.arr faces.toArray)])
  | _ => throw s!"unknown op {op}"

def main : IO Unit := runPure step
