/-
C15 — executable model of the Biot coupling terms (core Lean only).

Anchors in /repo/src/porepy/numerics/fv/biot.py:
* `Biot._subcell_gradient_to_cell_scalar` + `_local_discretization`
  (`displacement_divergence = div_op * vector_2_scalar * igrad * rhs_cells`): the coded
  displacement divergence of a cell is the sum over its sub-cells (one per cell node) of
  `(cell_volume / num_cell_nodes) * (alpha : G_s)`, `G_s` the sub-cell displacement gradient.
  -> `divCell`.
* `Biot._create_rhs_scalar_gradient`: `scalar_gradient_face = -map_unique_subfno * nAlpha_grad * sc2c`
  (one row per sub-face, taken from the first side, `nAlpha = (n_f / #nodes(f))ᵀ alpha`), summed over
  the sub-faces of a face by `hf2f`; `rhs_jumps` is built from `pair_over_subfaces(nAlpha_grad)`, i.e. the
  difference of the two sides of an interior sub-face.  -> `subfaceForce`, `faceForce`, `jumpRhs`.
* the surface-integral (divergence theorem) form of the same quantity on a closed polytope cell
  -> `fluxSum`, `ClosedCell`.

Vectors and matrices are index functions `Nat → Rat` / `Nat → Nat → Rat`; only indices `< d` are
ever read (`d` = nd, the number of displacement components).  Sums are structural recursions, so
concrete instances reduce by `decide`.
-/
namespace PorepyVerif.C15

abbrev Vec := Nat → Rat
abbrev Mat := Nat → Nat → Rat

/-- `Σ_{i<n} f i` -/
def sumN : Nat → (Nat → Rat) → Rat
  | 0, _ => 0
  | n + 1, f => sumN n f + f n

/-- `Σ_{a ∈ l} g a` -/
def sumL {α : Type} : List α → (α → Rat) → Rat
  | [], _ => 0
  | a :: l, g => g a + sumL l g

def dot (d : Nat) (a b : Vec) : Rat := sumN d (fun i => a i * b i)

/-- `A x` -/
def matVec (d : Nat) (A : Mat) (x : Vec) : Vec := fun i => sumN d (fun j => A i j * x j)

/-- `nᵀ α` (row vector times tensor: `normals_mat * k_mat` in `scalar_tensor_vector_prod`) -/
def vecMat (d : Nat) (n : Vec) (al : Mat) : Vec := fun j => sumN d (fun i => n i * al i j)

def trace (d : Nat) (A : Mat) : Rat := sumN d (fun i => A i i)

/-- double dot product `α : G = Σ_ij α_ij G_ij` -/
def ddot (d : Nat) (al G : Mat) : Rat := sumN d (fun i => sumN d (fun j => al i j * G i j))

/-- the isotropic tensor `a I` (what `Biot.discretize` builds from a float coefficient) -/
def iso (a : Rat) : Mat := fun i j => if i = j then a else 0

/-- affine displacement field `u(x) = A x + b` -/
def affine (d : Nat) (A : Mat) (b : Vec) (x : Vec) : Vec := fun i => matVec d A x i + b i

/-- a face as seen from one cell: OUTWARD normal scaled by the face area, and the face centre -/
structure Face where
  n : Vec
  x : Vec

/-- closed polytope identities (divergence theorem for constant and linear fields):
    `Σ_f n_f = 0` and `Σ_f n_f x_fᵀ = V I`. -/
def ClosedCell (d : Nat) (faces : List Face) (V : Rat) : Prop :=
  (∀ i, i < d → sumL faces (fun f => f.n i) = 0) ∧
  (∀ i, i < d → ∀ j, j < d → sumL faces (fun f => f.n i * f.x j) = if i = j then V else 0)

/-- executable version of `ClosedCell` (used by the driver on exact rational geometry) -/
def closedCellB (d : Nat) (faces : List Face) (V : Rat) : Bool :=
  (List.range d).all (fun i => decide (sumL faces (fun f => f.n i) = 0)) &&
  (List.range d).all (fun i => (List.range d).all (fun j =>
    decide (sumL faces (fun f => f.n i * f.x j) = if i = j then V else 0)))

/-- surface form of the coupling term: `Σ_f (α n_f) · u(x_f)` for `u = A x + b` -/
def fluxSum (d : Nat) (al : Mat) (faces : List Face) (A : Mat) (b : Vec) : Rat :=
  sumL faces (fun f => dot d (matVec d al f.n) (affine d A b f.x))

/-- the displacement divergence of one cell AS CODED: every sub-cell (one per cell node) carries the
    weight `V / #sub-cells` and contributes `α : G_s`. -/
def divCell (d : Nat) (al : Mat) (V : Rat) (Gs : List Mat) : Rat :=
  sumL Gs (fun G => V / (Gs.length : Rat) * ddot d al G)

/-- force on ONE sub-face from the pressure `p` of the cell on its first side, as coded:
    `-( (n_f / k)ᵀ α ) p`, `k` = number of nodes (= sub-faces) of the face. -/
def subfaceForce (d : Nat) (n : Vec) (k : Nat) (al : Mat) (p : Rat) : Vec :=
  fun j => -(vecMat d (fun i => n i / (k : Rat)) al j * p)

/-- `hf2f`: the face value is the sum over its `k` sub-faces -/
def faceForce (d : Nat) (n : Vec) (k : Nat) (al : Mat) (p : Rat) : Vec :=
  fun j => sumN k (fun _ => subfaceForce d n k al p j)

/-- right-hand side of the local systems from the pressure imbalance over an interior sub-face
    (`pair_over_subfaces(nAlpha_grad) * sc2c`): first side minus second side. -/
def jumpRhs (d : Nat) (n : Vec) (k : Nat) (alL : Mat) (pL : Rat) (alR : Mat) (pR : Rat) : Vec :=
  fun j => vecMat d (fun i => n i / (k : Rat)) alL j * pL - vecMat d (fun i => n i / (k : Rat)) alR j * pR

/-- a linear response `L r` (rows of `hook * igrad`, or of `alpha_double_dot * igrad`) to a right-hand side -/
def applyRows (L : List (List Rat)) (r : List Rat) : List Rat :=
  L.map (fun row => sumL (row.zip r) (fun q => q.1 * q.2))

/-! ### list <-> index function glue for the driver -/

def vecOf (l : List Rat) : Vec := fun i => l.getD i 0
def matOf (l : List (List Rat)) : Mat := fun i j => (l.getD i []).getD j 0
def listOf (d : Nat) (v : Vec) : List Rat := (List.range d).map v

end PorepyVerif.C15
