import PorepyVerif.C13.Model
/-
C15 — executable model of the Biot coupling terms (core Lean only).

Anchors in /repo/src/porepy/numerics/fv/biot.py:
* `Biot._subcell_gradient_to_cell_scalar` + `_local_discretization`
  (`displacement_divergence = div_op * vector_2_scalar * igrad * rhs_cells`): the coded
  displacement divergence of a cell is the sum over its sub-cells (one per cell node) of
  `(cell_volume / num_cell_nodes) * (alpha : G_s)`, `G_s` the sub-cell displacement gradient.
  -> `divCell`.
* `Biot._create_rhs_scalar_gradient`: `scalar_gradient_face = -map_unique_subfno * nAlpha_grad * sc2c`
  (one row per sub-face, taken from the first side, `nAlpha = (n_f / #nodes(f))ᵀ alpha`), summed over
  the sub-faces of a face by `hf2f`; `rhs_jumps` is built from `pair_over_subfaces(nAlpha_grad)`, i.e. the
  difference of the two sides of an interior sub-face.  -> `subfaceForce`, `faceForce`, `jumpRhs`.
* the surface-integral (divergence theorem) form of the same quantity on a closed polytope cell
  -> `fluxSum`, `ClosedCell`.

Vectors and matrices are index functions `Nat → Rat` / `Nat → Nat → Rat`; only indices `< d` are
ever read (`d` = nd, the number of displacement components).  Sums are structural recursions, so
concrete instances reduce by `decide`.
-/
namespace PorepyVerif.C15

abbrev Vec := Nat → Rat
abbrev Mat := Nat → Nat → Rat

/-- `Σ_{i<n} f i` -/
def sumN : Nat → (Nat → Rat) → Rat
  | 0, _ => 0
  | n + 1, f => sumN n f + f n

/-- `Σ_{a ∈ l} g a` -/
def sumL {α : Type} : List α → (α → Rat) → Rat
  | [], _ => 0
  | a :: l, g => g a + sumL l g

def dot (d : Nat) (a b : Vec) : Rat := sumN d (fun i => a i * b i)

/-- `A x` -/
def matVec (d : Nat) (A : Mat) (x : Vec) : Vec := fun i => sumN d (fun j => A i j * x j)

/-- `nᵀ α` (row vector times tensor: `normals_mat * k_mat` in `scalar_tensor_vector_prod`) -/
def vecMat (d : Nat) (n : Vec) (al : Mat) : Vec := fun j => sumN d (fun i => n i * al i j)

def trace (d : Nat) (A : Mat) : Rat := sumN d (fun i => A i i)

/-- double dot product `α : G = Σ_ij α_ij G_ij` -/
def ddot (d : Nat) (al G : Mat) : Rat := sumN d (fun i => sumN d (fun j => al i j * G i j))

/-- the isotropic tensor `a I` (what `Biot.discretize` builds from a float coefficient) -/
def iso (a : Rat) : Mat := fun i j => if i = j then a else 0

/-- affine displacement field `u(x) = A x + b` -/
def affine (d : Nat) (A : Mat) (b : Vec) (x : Vec) : Vec := fun i => matVec d A x i + b i

/-- a face as seen from one cell: OUTWARD normal scaled by the face area, and the face centre -/
structure Face where
  n : Vec
  x : Vec

/-- closed polytope identities (divergence theorem for constant and linear fields):
    `Σ_f n_f = 0` and `Σ_f n_f x_fᵀ = V I`. -/
def ClosedCell (d : Nat) (faces : List Face) (V : Rat) : Prop :=
  (∀ i, i < d → sumL faces (fun f => f.n i) = 0) ∧
  (∀ i, i < d → ∀ j, j < d → sumL faces (fun f => f.n i * f.x j) = if i = j then V else 0)

/-- executable version of `ClosedCell` (used by the driver on exact rational geometry) -/
def closedCellB (d : Nat) (faces : List Face) (V : Rat) : Bool :=
  (List.range d).all (fun i => decide (sumL faces (fun f => f.n i) = 0)) &&
  (List.range d).all (fun i => (List.range d).all (fun j =>
    decide (sumL faces (fun f => f.n i * f.x j) = if i = j then V else 0)))

/-- surface form of the coupling term: `Σ_f (α n_f) · u(x_f)` for `u = A x + b` -/
def fluxSum (d : Nat) (al : Mat) (faces : List Face) (A : Mat) (b : Vec) : Rat :=
  sumL faces (fun f => dot d (matVec d al f.n) (affine d A b f.x))

/-- the displacement divergence of one cell AS CODED: every sub-cell (one per cell node) carries the
    weight `V / #sub-cells` and contributes `α : G_s`. -/
def divCell (d : Nat) (al : Mat) (V : Rat) (Gs : List Mat) : Rat :=
  sumL Gs (fun G => V / (Gs.length : Rat) * ddot d al G)

/-- force on ONE sub-face from the pressure `p` of the cell on its first side, as coded:
    `-( (n_f / k)ᵀ α ) p`, `k` = number of nodes (= sub-faces) of the face. -/
def subfaceForce (d : Nat) (n : Vec) (k : Nat) (al : Mat) (p : Rat) : Vec :=
  fun j => -(vecMat d (fun i => n i / (k : Rat)) al j * p)

/-- `hf2f`: the face value is the sum over its `k` sub-faces -/
def faceForce (d : Nat) (n : Vec) (k : Nat) (al : Mat) (p : Rat) : Vec :=
  fun j => sumN k (fun _ => subfaceForce d n k al p j)

/-- right-hand side of the local systems from the pressure imbalance over an interior sub-face
    (`pair_over_subfaces(nAlpha_grad) * sc2c`): first side minus second side. -/
def jumpRhs (d : Nat) (n : Vec) (k : Nat) (alL : Mat) (pL : Rat) (alR : Mat) (pR : Rat) : Vec :=
  fun j => vecMat d (fun i => n i / (k : Rat)) alL j * pL - vecMat d (fun i => n i / (k : Rat)) alR j * pR

/-- a linear response `L r` (rows of `hook * igrad`, or of `alpha_double_dot * igrad`) to a right-hand side -/
def applyRows (L : List (List Rat)) (r : List Rat) : List Rat :=
  L.map (fun row => sumL (row.zip r) (fun q => q.1 * q.2))

/-! ### list <-> index function glue for the driver -/

def vecOf (l : List Rat) : Vec := fun i => l.getD i 0
def matOf (l : List (List Rat)) : Mat := fun i j => (l.getD i []).getD j 0
def listOf (d : Nat) (v : Vec) : List Rat := (List.range d).map v


/-! ## The assembled 2-D Biot coupling terms on top of C13's certified MPSA model (`C13.GridS`)

`Biot._local_discretization` reuses the MPSA local systems: `displacement_divergence =
div_op * vector_2_scalar * igrad * rhs_cells`, `scalar_gradient = hf2f * (hook * igrad * rhs_jumps +
scalar_gradient_face)`.  `C13.GridS.nodeSol` is `igrad * rhs` per node (with the certified left inverse),
`C13.GridS.subTr` is `hook`; what is added here is exactly what biot.py adds. -/
namespace Biot2
open PorepyVerif.C13 PorepyVerif.C13.GridS

variable (G : C13.GridS)

/-- `α : g` for 2×2 matrices -/
def ddot2 (al g : C13.Mat 2) : Rat := al 0 0 * g 0 0 + al 0 1 * g 0 1 + al 1 0 * g 1 0 + al 1 1 * g 1 1

def iso2 (a : Rat) : C13.Mat 2 := fun i j => if i = j then a else 0

/-- nodes of cell `c` (= its sub-cells), ascending -/
def nodesOfCell (c : Nat) : List Nat := (List.range G.numNodes).filter (fun v => (G.cellsOf v).contains c)

/-- cell volume as the code distributes it: `#nodes · (cell_volume / num_cell_nodes)` -/
def cellVol (c : Nat) : Rat := ((nodesOfCell G c).length : Nat) * G.volShare.getD c 0

/-- `(displacement_divergence · u + boundary_displacement_divergence · bc)[c]` as coded: every sub-cell of
    `c` contributes `(V_c / #nodes) · (α_c : G_s)`, `G_s` the gradient of the node's local solve -/
def divU (al : Nat → C13.Mat 2) (sol : Nat → NodeSol) (c : Nat) : Rat :=
  sumList ((nodesOfCell G c).map (fun v => G.volShare.getD c 0 * ddot2 (al c) ((sol v).Gs (G.loc v c))))

/-- `((n_f / #nodes(f))ᵀ α_c) p_c`: pressure force on the sub-face of `f` seen from cell `c` (`nAlpha_grad * sc2c`) -/
def nAlphaP (al : Nat → C13.Mat 2) (p : Nat → Rat) (f c : Nat) : C13.Vec 2 :=
  fun j => (G.subNormal f 0 * al c 0 j + G.subNormal f 1 * al c 1 j) * p c

/-- right-hand side entries (`rhs_jumps · p`) of the rows `C13.GridS.mkRows` creates for the sub-face of `f`:
    interior: pressure-force imbalance on the traction row, nothing on the displacement row; Dirichlet: nothing;
    Neumann: the pressure force of the only side -/
def pRow (al : Nat → C13.Mat 2) (p : Nat → Rat) (f : Nat) : List Rat :=
  match G.fcells f with
  | [(c, _)] => if G.dirAt f then [0, 0] else [nAlphaP G al p f c 0, nAlphaP G al p f c 1]
  | [(c1, _), (c2, _)] =>
      [nAlphaP G al p f c1 0 - nAlphaP G al p f c2 0, nAlphaP G al p f c1 1 - nAlphaP G al p f c2 1, 0, 0]
  | _ => []

def pRhs (al : Nat → C13.Mat 2) (p : Nat → Rat) (v : Nat) : List Rat := (G.facesOf v).flatMap (pRow G al p)

/-- local solve of node `v` for the pressure right-hand side: `igrad * rhs_jumps * p` -/
def pSol (Ls : List C11.Mat) (al : Nat → C13.Mat 2) (p : Nat → Rat) (v : Nat) : NodeSol :=
  ⟨G.region zeroData v, fun _ _ => 0, unflat (C11.mulVec (Ls.getD v []) (pRhs G al p v))⟩

/-- `(scalar_gradient · p)[f]`: per sub-face Hooke's law of the induced deformation minus the pressure force of the
    first side, summed over the sub-faces of the face -/
def gradP (al : Nat → C13.Mat 2) (p : Nat → Rat) (sol : Nat → NodeSol) (f : Nat) : C13.Vec 2 :=
  fun a => sumList ((G.fnodes f).map (fun v => G.subTr (sol v) v f a - nAlphaP G al p f (G.firstCell f) a))

/-- `(mpsa_consistency · p)[c]`: the divergence functional applied to the pressure-induced gradients -/
def stab (al : Nat → C13.Mat 2) (sol : Nat → NodeSol) (c : Nat) : Rat := divU G al sol c

def unitP (k : Nat) : Nat → Rat := fun c => if c = k then 1 else 0

/-- all boundary faces carry a Dirichlet condition -/
def allDir : Bool := (List.range G.numFaces).all (fun f => !G.isNeu f)

/-- everything the driver reports: columns of displacement_divergence (per cell, component), of
    boundary_displacement_divergence (per face, component), of scalar_gradient and mpsa_consistency (per cell) -/
def columns (Ls : List C11.Mat) (al : Nat → C13.Mat 2) :
    List (List Rat) × List (List Rat) × List (List (List Rat)) × List (List Rat) :=
  let cells := List.range G.numCells
  let divOf (u bc : Nat → C13.Vec 2) : List Rat :=
    let tab := (List.range G.numNodes).map (G.nodeSol Ls u bc)
    let sol := solOf tab (G.nodeSol Ls u bc)
    cells.map (divU G al sol)
  let pOf (k : Nat) : List (List Rat) × List Rat :=
    let tab := (List.range G.numNodes).map (pSol G Ls al (unitP k))
    let sol := solOf tab (pSol G Ls al (unitP k))
    ((List.range G.numFaces).map (fun f => vecToList (gradP G al (unitP k) sol f)), cells.map (stab G al sol))
  let pc := cells.map pOf
  (cells.flatMap (fun c => [divOf (unitData c 0) zeroData, divOf (unitData c 1) zeroData]),
   (List.range G.numFaces).flatMap (fun f => [divOf zeroData (unitData f 0), divOf zeroData (unitData f 1)]),
   pc.map (·.1), pc.map (·.2))

end Biot2

end PorepyVerif.C15
