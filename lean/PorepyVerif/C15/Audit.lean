import PorepyVerif.C15.Props
#print axioms PorepyVerif.C15.closedCellB_iff
#print axioms PorepyVerif.C15.div_u_exact
#print axioms PorepyVerif.C15.div_u_exact_alpha
#print axioms PorepyVerif.C15.div_u_exact_tensor
#print axioms PorepyVerif.C15.div_u_subcell_exact
#print axioms PorepyVerif.C15.div_u_subcell_exact_alpha
#print axioms PorepyVerif.C15.div_u_scheme_exact
#print axioms PorepyVerif.C15.scalar_gradient_const
#print axioms PorepyVerif.C15.scalar_gradient_const_iso
#print axioms PorepyVerif.C15.scalar_gradient_closed_sum_zero
#print axioms PorepyVerif.C15.pressure_jump_zero
#print axioms PorepyVerif.C15.applyRows_zero
#print axioms PorepyVerif.C15.Biot2.biot2d_div_u_exact
#print axioms PorepyVerif.C15.Biot2.biot2d_div_u_exact_alpha
#print axioms PorepyVerif.C15.Biot2.biot2d_grad_p_const
#print axioms PorepyVerif.C15.Biot2.biot2d_grad_p_const_iso
#print axioms PorepyVerif.C15.Biot2.biot2d_stab_const
