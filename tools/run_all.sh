#!/bin/bash
# tools/run_all.sh SEED [TIER] : run every claimed check once, sequentially; print one line per property.
cd "$(dirname "$0")/.."
seed=${1:-0}; tier=${2:-quick}
for p in $(cat tools/claimed.txt); do
  s=$(date +%s)
  out=$(VERIF_SEED=$seed ./check $p --tier $tier 2>&1 | grep -E "^OK|^VIOLATION|harness error|^detail" | tail -2 | tr '\n' ' ' | cut -c1-260)
  echo "$p rc=$? $(( $(date +%s) - s ))s $out"
done
