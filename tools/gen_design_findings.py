#!/usr/bin/env python3
"""Rewrite the generated block of DESIGN.md section 7 from known_findings.json / known_findings.d."""
import json, glob, os, re
here = os.path.dirname(os.path.dirname(os.path.abspath(__file__)))
k = json.load(open(os.path.join(here, "known_findings.json")))
rows = []
for line in k["fixed"]:
    m = re.match(r"fixed: property=(C\d+) (\S+) (.*)", line)
    rows.append((m.group(1), f"fixed `{m.group(2)}`", m.group(3)))
opens = list(k.get("findings", []))
for f in sorted(glob.glob(os.path.join(here, "known_findings.d", "*.json"))):
    opens += json.load(open(f)).get("findings", [])
for f in opens:
    if f.get("status") == "open":
        rows.append((f["property"], f"OPEN (key `{f['key']}`)", f["what"]))
rows.sort(key=lambda r: (r[0], r[1]))
out = ["<!-- BEGIN GENERATED FINDINGS (tools/gen_design_findings.py) -->",
       f"{sum(1 for r in rows if r[1].startswith('fixed'))} defects repaired by `fix:` commits in /repo, "
       f"{sum(1 for r in rows if r[1].startswith('OPEN'))} recorded as open known findings.", "",
       "| prop | status | failing input / history and behaviour |", "|---|---|---|"]
for p, s, w in rows:
    out.append(f"| {p} | {s} | {w.replace('|', '/')} |")
out.append("<!-- END GENERATED FINDINGS -->")
block = "\n".join(out)
p = os.path.join(here, "DESIGN.md")
s = open(p).read()
if "<!-- BEGIN GENERATED FINDINGS" in s:
    s = re.sub(r"<!-- BEGIN GENERATED FINDINGS.*?<!-- END GENERATED FINDINGS -->", lambda m: block, s, flags=re.S)
else:
    s = s.replace("## 8. Build order and cost", "### 7a. Defects as handled by the built machinery\n\n"
        "Every entry below was reproduced on the real code by a check's oracle (the failing input is kept in `corpus/` and replayed on every run). "
        "`fixed` entries were repaired in /repo by one minimal `fix:` commit each (the pinned test-suite passes with all of them, `tools/baseline.py`); "
        "OPEN entries are genuine defects recorded rather than repaired, with the reason given in the list after the table; the owning check prints `KNOWN-FINDING` for exactly that key and still reports any other failure.\n\n"
        + block + "\n\n## 8. Build order and cost")
open(p, "w").write(s)
print(len(rows), "rows")
