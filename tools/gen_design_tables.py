#!/venv/bin/python
"""Rewrite the generated blocks of DESIGN.md: per-property as-built table (from harness/props + evidence) and the
seeded-change log (from seeded/*/meta.json)."""
import importlib, json, os, re, sys, glob
here = os.path.dirname(os.path.dirname(os.path.abspath(__file__)))
sys.path.insert(0, here); os.chdir(here)
props = [json.loads(l) for l in open("properties.jsonl")]
rows = ["<!-- BEGIN GENERATED ASBUILT (tools/gen_design_tables.py) -->",
        "| id | theorems (all audited) | quick cases (seed 0) | what the theorems establish / what is correspondence- or oracle-only (from the check's own EXPLANATION) |", "|---|---|---|---|"]
for p in props:
    pid = p["id"]
    try:
        mod = importlib.import_module("harness.props." + pid.lower())
    except Exception as e:
        rows.append(f"| {pid} | - | - | module missing: {e} |"); continue
    ev = {}
    if os.path.exists(f"evidence/{pid}.json"): ev = json.load(open(f"evidence/{pid}.json"))
    cov = ev.get("coverage", {})
    expl = re.sub(r"\s+", " ", getattr(mod, "EXPLANATION", "")).replace("|", "/")
    if len(expl) > 700: expl = expl[:700] + " …"
    rows.append(f"| {pid} | {len(mod.THEOREMS)}" + (f" (+{cov.get('obligations',0)-len(mod.THEOREMS)} generated)" if cov.get('obligations',0) > len(mod.THEOREMS) else "") +
                f" | {cov.get('evaluations','?')} ({cov.get('distinct_nontrivial','?')} distinct non-trivial) | {expl} |")
rows.append("<!-- END GENERATED ASBUILT -->")
seed = ["<!-- BEGIN GENERATED SEEDED (tools/gen_design_tables.py) -->",
        "| seeded change | files changed | demo (with / without change) | caught by `./check` | what the check reported |", "|---|---|---|---|---|"]
n = c = 0
for d in sorted(glob.glob("seeded/*/meta.json")):
    m = json.load(open(d)); n += 1; c += bool(m.get("check_caught"))
    kind = m.get("violation_kind") or ""
    by = "no" if not m.get("check_caught") else ("oracle (concrete failing input)" if kind == "oracle-failure" else ("correspondence / proof only (no-failing-input-found)" if kind.startswith("broken") else "yes"))
    hist = m.get("history", [])
    if m.get("check_caught") and any(h.get("check_caught") is False for h in hist): by += " — after strengthening (missed at first)"
    what = (m.get("violation_what") or " ".join(m.get("check_lines", [])[-1:])).replace("|", "/")[:260]
    seed.append(f"| {m['seed_name']} | {', '.join(os.path.basename(f.strip()) for f in m['files_changed'])} | exit {m['demo_with_change_exit']} / {m['demo_without_change_exit']} | {by} | {what} |")
seed.insert(1, f"{n} independently seeded changes evaluated (each on a fresh scratch worktree of /repo HEAD with only that patch applied), {c} reported as VIOLATION by the property's check.")
seed.insert(2, "")
seed.append("<!-- END GENERATED SEEDED -->")
s = open("DESIGN.md").read()
for tag, block in (("ASBUILT", "\n".join(rows)), ("SEEDED", "\n".join(seed))):
    if f"<!-- BEGIN GENERATED {tag}" in s:
        s = re.sub(rf"<!-- BEGIN GENERATED {tag}.*?<!-- END GENERATED {tag} -->", lambda m: block, s, flags=re.S)
    else:
        s += f"\n\n{block}\n"
open("DESIGN.md", "w").write(s)
print(n, "seeds", c, "caught")
