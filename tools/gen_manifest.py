#!/venv/bin/python
"""Regenerate MANIFEST.json from harness/props/*.py (claimed) and tools/not_applicable.json (the rest)."""
import importlib, json, os, sys
here = os.path.dirname(os.path.dirname(os.path.abspath(__file__)))
sys.path.insert(0, here); os.chdir(here)
props = [json.loads(l) for l in open("properties.jsonl")]
ids = [p["id"] for p in props]
na = json.load(open("tools/not_applicable.json"))
checks, claimed = [], set()
approved = set(open("tools/claimed.txt").read().split())
for pid in ids:
    f = f"harness/props/{pid.lower()}.py"
    if not os.path.exists(f): continue
    mod = importlib.import_module("harness.props." + pid.lower())
    if getattr(mod, "DISABLED", False): continue
    if pid not in approved: continue  # the coordinator approves a check after running it on the unchanged tree
    claimed.add(pid)
    checks.append({
        "property_id": pid,
        "quick_cmd": f"./check {pid} --tier quick",
        "thorough_cmd": f"./check {pid} --tier thorough",
        "evidence_file": f"evidence/{pid}.json",
        "replay_cmd_template": f"./check {pid} --replay {{path}}",
        "engine": "lean4-proof+correspondence",
        "level_claimed": {"category": "proof", "text": mod.EXPLANATION, "design_ref": f"DESIGN.md section 6 / {pid}"},
        "level_note": "Trusted: Lean 4.33 kernel, axioms propext/Classical.choice/Quot.sound only (audited per run); the theorem is about the Lean model; the model is tied to /repo by the differential correspondence check and the direct oracle run on the working tree on every run. " + " ".join(getattr(mod, "TRUSTED", [])),
        "technique": getattr(mod, "TECHNIQUE", "Lean 4 theorem about an executable model + differential correspondence check against the real code"),
    })
man = {
    "version": 1,
    "setup_cmd": "cd lean && lake build && cd .. && /venv/bin/python -c 'import porepy'",
    "hooks": {"guard": "POREPY_VERIF", "enable": "no source hooks are needed; checks import porepy from /repo/src (editable install) with POREPY_VERIF=1 set",
              "baseline_off_cmd": "/venv/bin/python tools/baseline.py", "source_commits": [], "add_only": True},
    "engines": [{"name": "lean4-proof+correspondence", "path": "check", "serves_properties": sorted(claimed),
                 "kind_free_text": "Lean 4 models + theorems (lean/PorepyVerif/Cxx), audited with #print axioms; python harness (harness/) runs the real code and the Lean driver on the same generated inputs and compares; direct oracle for the failing-input search"}],
    "checks": checks,
    "notes": "See DESIGN.md. ./check Cxx --tier quick|thorough; exit 2 = harness problem (no verdict).",
    "not_applicable": [{"property_id": i, "reason": na.get(i, "not yet built in this round (design exists in DESIGN.md section 6); no check is claimed")} for i in ids if i not in claimed],
}
json.dump(man, open("MANIFEST.json", "w"), indent=1)
print("claimed", len(claimed), "not_applicable", len(ids) - len(claimed))
