#!/venv/bin/python
"""Run the pinned baseline test-suite of /repo (guard OFF) and compare with /root/.vp/BASELINE.json.
usage: tools/baseline.py [-n WORKERS]   exit 0 iff every stable_pass test passed."""
import json, os, subprocess, sys, tempfile, xml.etree.ElementTree as ET
n = "14"
if "-n" in sys.argv: n = sys.argv[sys.argv.index("-n") + 1]
base = json.load(open("/root/.vp/BASELINE.json"))
want = set(base["stable_pass"])
out = tempfile.mkdtemp(prefix="baseline_")
junit = os.path.join(out, "junit.xml")
env = dict(os.environ); env.pop("POREPY_VERIF", None)
REPO = os.environ.get("VERIF_REPO", "/repo")  # development: test a scratch worktree (seeded changes)
if REPO != "/repo": env["PYTHONPATH"] = os.path.join(REPO, "src")
cmd = ["/venv/bin/python", "-m", "pytest", "-q", "-p", "no:cacheprovider", "--timeout=900",
       "--continue-on-collection-errors", "--junitxml=" + junit]
if n != "0": cmd += ["-n", n]
r = subprocess.run(cmd, cwd=REPO, env=env, stdout=subprocess.PIPE, stderr=subprocess.STDOUT, text=True)
print(r.stdout[-1500:])
passed = set()
for tc in ET.parse(junit).getroot().iter("testcase"):
    if not any(ch.tag in ("failure", "error", "skipped") for ch in tc):
        passed.add(tc.get("classname") + "::" + tc.get("name"))
missing = sorted(want - passed)
if missing and n != "0":
    # tests that write fixed file names in the cwd collide under xdist: rerun their files serially
    files = set()
    for m in missing:
        parts = m.split("::")[0].split(".")
        while parts and not os.path.exists(os.path.join(REPO, *parts) + ".py"):
            parts = parts[:-1]
        if parts: files.add(os.path.join(*parts) + ".py")
    junit2 = os.path.join(out, "junit2.xml")
    r = subprocess.run(cmd[:-1] + ["--junitxml=" + junit2] + sorted(files) if n == "0" else
                       [c for c in cmd if not c.startswith("--junitxml")] + ["--junitxml=" + junit2, "-n", "0"] + sorted(files),
                       cwd=REPO, env=env, stdout=subprocess.PIPE, stderr=subprocess.STDOUT, text=True)
    print("serial rerun of", sorted(files)); print(r.stdout[-600:])
    for tc in ET.parse(junit2).getroot().iter("testcase"):
        if not any(ch.tag in ("failure", "error", "skipped") for ch in tc):
            passed.add(tc.get("classname") + "::" + tc.get("name"))
    missing = sorted(want - passed)
print(f"stable_pass={len(want)} passed_now={len(passed)} missing={len(missing)}")
for m in missing[:40]: print("  MISSING", m)
import shutil; shutil.rmtree(out, ignore_errors=True)
sys.exit(1 if missing else 0)
