#!/venv/bin/python
"""tools/seed_eval.py Cxx [--name NAME] : evaluate a seeded change produced in /tmp/seed_Cxx(_out).
 - confirms demo.py exits 1 with the change and 0 without (in the seed's own scratch worktree)
 - runs ./check Cxx --tier quick against the changed worktree (VERIF_REPO, development override)
 - stores patch.diff, demo.py, notes.md, meta.json under /verif/seeded/<NAME>/"""
import json, os, shutil, subprocess, sys, time
pid = sys.argv[1]
name = sys.argv[sys.argv.index("--name") + 1] if "--name" in sys.argv else pid
out = f"/tmp/seed_{name}_out"
if not os.path.isdir(out): out = f"/tmp/seed_{pid}_out"
dst = f"/verif/seeded/{name}"
os.makedirs(dst, exist_ok=True)
def run(cmd, **kw):
    return subprocess.run(cmd, stdout=subprocess.PIPE, stderr=subprocess.STDOUT, text=True, **kw)
# patch/demo come from the seeding agent's output dir the first time, afterwards from /verif/seeded/<name>
for f in ("patch.diff", "demo.py", "notes.md"):
    if os.path.exists(os.path.join(out, f)) and not os.path.exists(os.path.join(dst, f)): shutil.copy(os.path.join(out, f), dst)
patch = os.path.join(dst, "patch.diff")
# fresh scratch worktree at the CURRENT /repo HEAD, so that the verdict is about this change alone
wt = f"/tmp/seval_{name}"
run(["git", "-C", "/repo", "worktree", "remove", "--force", wt])
shutil.rmtree(wt, ignore_errors=True); run(["git", "-C", "/repo", "worktree", "prune"])
r = run(["git", "-C", "/repo", "worktree", "add", "--detach", wt, "HEAD"])
assert os.path.isdir(wt), r.stdout
env = dict(os.environ, PYTHONPATH=f"{wt}/src")
head = run(["git", "-C", "/repo", "rev-parse", "--short", "HEAD"]).stdout.strip()
without = run(["/venv/bin/python", os.path.join(dst, "demo.py")], cwd=wt, env=env, timeout=1800)
r = run(["git", "-C", wt, "apply", patch])
if r.returncode != 0:
    print("patch does not apply to current HEAD:", r.stdout); run(["git", "-C", "/repo", "worktree", "remove", "--force", wt]); sys.exit(3)
with_change = run(["/venv/bin/python", os.path.join(dst, "demo.py")], cwd=wt, env=env, timeout=1800)
t0 = time.time()
chk = run(["./check", pid, "--tier", "quick"], cwd="/verif", env=dict(os.environ, VERIF_REPO=wt), timeout=7200)
lines = [l for l in chk.stdout.splitlines() if l.startswith(("VIOLATION", "OK", "detail", "KNOWN", "harness"))]
caught = any(l.startswith("VIOLATION") for l in lines)
replay = None
for l in lines:
    if l.startswith("VIOLATION") and "replay=" in l:
        rp = l.split("replay=")[1].split()[0]
        if os.path.exists(os.path.join("/verif", rp)):
            replay = json.load(open(os.path.join("/verif", rp)))
run(["git", "-C", "/repo", "worktree", "remove", "--force", wt]); shutil.rmtree(wt, ignore_errors=True)
meta = {
    "repo_head": head,
    "property": pid, "seed_name": name,
    "files_changed": [l[6:] for l in open(patch) if l.startswith("+++ b/")],
    "demo_with_change_exit": with_change.returncode, "demo_without_change_exit": without.returncode,
    "demo_with_change_tail": with_change.stdout[-600:], "demo_without_change_tail": without.stdout[-300:],
    "check_cmd": f"VERIF_REPO=<fresh scratch worktree of /repo HEAD with patch.diff applied> ./check {pid} --tier quick",
    "check_exit": chk.returncode, "check_caught": caught, "check_lines": lines[-6:], "check_wall_s": round(time.time() - t0, 1),
    "violation_kind": (replay or {}).get("kind"), "violation_what": ((replay or {}).get("what") or "")[:400],
}
if os.path.exists(os.path.join(dst, "meta.json")):
    old = json.load(open(os.path.join(dst, "meta.json")))
    for k in ("needs_to_manifest", "existing_tests", "history"): 
        if k in old: meta[k] = old[k]
    meta.setdefault("history", []).append({"check_caught": old.get("check_caught"), "check_lines": old.get("check_lines")})
json.dump(meta, open(os.path.join(dst, "meta.json"), "w"), indent=1)
print(json.dumps({k: meta[k] for k in ("property", "demo_with_change_exit", "demo_without_change_exit", "check_caught", "check_lines")}, indent=1))
