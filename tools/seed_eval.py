#!/venv/bin/python
"""tools/seed_eval.py Cxx [--name NAME] : evaluate a seeded change produced in /tmp/seed_Cxx(_out).
 - confirms demo.py exits 1 with the change and 0 without (in the seed's own scratch worktree)
 - runs ./check Cxx --tier quick against the changed worktree (VERIF_REPO, development override)
 - stores patch.diff, demo.py, notes.md, meta.json under /verif/seeded/<NAME>/"""
import json, os, shutil, subprocess, sys, time
pid = sys.argv[1]
name = sys.argv[sys.argv.index("--name") + 1] if "--name" in sys.argv else pid
wt, out = f"/tmp/seed_{name}", f"/tmp/seed_{name}_out"
if not os.path.isdir(wt): wt, out = f"/tmp/seed_{pid}", f"/tmp/seed_{pid}_out"
dst = f"/verif/seeded/{name}"
os.makedirs(dst, exist_ok=True)
env = dict(os.environ, PYTHONPATH=f"{wt}/src")
def run(cmd, **kw):
    return subprocess.run(cmd, stdout=subprocess.PIPE, stderr=subprocess.STDOUT, text=True, **kw)
patch = os.path.join(out, "patch.diff")
# make sure the worktree holds exactly the patch
cur = run(["git", "-C", wt, "diff"]).stdout
if cur.strip() != open(patch).read().strip():
    print("note: worktree diff differs from patch.diff; resetting worktree to HEAD + patch.diff")
    run(["git", "-C", wt, "checkout", "--", "."]); r = run(["git", "-C", wt, "apply", patch]); print(r.stdout)
with_change = run(["/venv/bin/python", os.path.join(out, "demo.py")], cwd=wt, env=env, timeout=1800)
run(["git", "-C", wt, "apply", "-R", patch])
without = run(["/venv/bin/python", os.path.join(out, "demo.py")], cwd=wt, env=env, timeout=1800)
run(["git", "-C", wt, "apply", patch])
t0 = time.time()
chk = run(["./check", pid, "--tier", "quick"], cwd="/verif", env=dict(os.environ, VERIF_REPO=wt), timeout=7200)
lines = [l for l in chk.stdout.splitlines() if l.startswith(("VIOLATION", "OK", "detail", "KNOWN", "harness"))]
caught = any(l.startswith("VIOLATION") for l in lines)
replay = None
for l in lines:
    if l.startswith("VIOLATION") and "replay=" in l:
        rp = l.split("replay=")[1].split()[0]
        if os.path.exists(os.path.join("/verif", rp)):
            replay = json.load(open(os.path.join("/verif", rp)))
for f in ("patch.diff", "demo.py", "notes.md"):
    if os.path.exists(os.path.join(out, f)): shutil.copy(os.path.join(out, f), dst)
meta = {
    "property": pid, "seed_name": name,
    "files_changed": [l[6:] for l in open(patch) if l.startswith("+++ b/")],
    "demo_with_change_exit": with_change.returncode, "demo_without_change_exit": without.returncode,
    "demo_with_change_tail": with_change.stdout[-600:], "demo_without_change_tail": without.stdout[-300:],
    "check_cmd": f"VERIF_REPO=<scratch worktree with patch.diff applied> ./check {pid} --tier quick",
    "check_exit": chk.returncode, "check_caught": caught, "check_lines": lines[-6:], "check_wall_s": round(time.time() - t0, 1),
    "violation_kind": (replay or {}).get("kind"), "violation_what": ((replay or {}).get("what") or "")[:400],
}
if os.path.exists(os.path.join(dst, "meta.json")):
    old = json.load(open(os.path.join(dst, "meta.json")))
    for k in ("needs_to_manifest", "existing_tests", "history"): 
        if k in old: meta[k] = old[k]
    meta.setdefault("history", []).append({"check_caught": old.get("check_caught"), "check_lines": old.get("check_lines")})
json.dump(meta, open(os.path.join(dst, "meta.json"), "w"), indent=1)
print(json.dumps({k: meta[k] for k in ("property", "demo_with_change_exit", "demo_without_change_exit", "check_caught", "check_lines")}, indent=1))
